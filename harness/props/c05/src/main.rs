//! C05 — multi-scalar multiplication equals Σ kᵢ·Pᵢ for every shape and history.
//!
//! Every group under test is cyclic of prime order r with a designated generator `Gen`, and every base the
//! generators produce is a *known* multiple aᵢ·Gen. The reference value of an MSM is therefore
//! `(Σ kᵢ·aᵢ mod r)·Gen`: a BigUint dot product followed by the trusted map e ↦ e·Gen
//!   * `Zr` (additive group of a prime field, see zr.rs): e·1 = e, built from its integer value;
//!   * toy curves: the table 0·G … (r−1)·G built with the textbook affine law of `vh_core::curve`
//!     (the table is checked to have exactly r distinct entries and to close up: (r−1)·G + G = O);
//!   * shipped curves: naive MSB-first double-and-add written here (r·G = O is checked at start-up).
mod zr;

use ark_ec::models::short_weierstrass::{self as sw, SWCurveConfig};
use ark_ec::models::twisted_edwards::{self as te, TECurveConfig};
use ark_ec::scalar_mul::variable_base::{ChunkedPippenger, HashMapPippenger};
use ark_ec::pairing::{Pairing, PairingOutput};
use ark_ec::{PrimeGroup, VariableBaseMSM};
use ark_ff::{AdditiveGroup, Field, PrimeField};
use ark_std::iterable::Reverse;
use num_bigint::BigUint;
use num_traits::{One, Zero};
use std::sync::Arc;
use vh_core::curve::*;
use vh_core::engine::{no_panic, Obs, PropSpec, Rel, Tape, Tier, R};
use vh_core::gen::{big_below, edge_value};
use vh_core::modint::{pow2, FieldCtx};
use vh_core::{ensure, toy, zoo};
use zr::{Cfg, Zr};

type Sc<G> = <G as PrimeGroup>::ScalarField;
type Bi<G> = <Sc<G> as PrimeField>::BigInt;
type Mb<G> = <G as ark_ec::ScalarMul>::MulBase;

// ------------------------------------------------------------------------------------------------
// group descriptions
// ------------------------------------------------------------------------------------------------

enum Bases<G: VariableBaseMSM> {
    /// every a in [0, r) is available: base(a)
    Any(Box<dyn Fn(&BigUint) -> Mb<G> + Send + Sync>),
    /// bases come from a fixed pool (a, a·Gen) closed under negation; `neg[i]` = index of −pool[i].
    /// pool[0] is the identity, pool[1] the generator
    Pool { pts: Vec<(BigUint, Mb<G>)>, neg: Vec<usize> },
}

struct Ctx<G: VariableBaseMSM> {
    name: String,
    r: BigUint,
    nbits: usize,
    /// scalar-field context for the edge generator
    fctx: FieldCtx,
    bases: Bases<G>,
    /// e -> e·Gen by reference means
    mk_elem: Box<dyn Fn(&BigUint) -> G + Send + Sync>,
    /// `SWCurveConfig::msm` / `TECurveConfig::msm`
    cfg_msm: Option<fn(&[Mb<G>], &[Sc<G>]) -> Result<G, usize>>,
    /// signed-digit implementation in use (classification only)
    neg: bool,
}

fn big_to_bi<F: PrimeField>(v: &BigUint) -> F::BigInt {
    F::BigInt::try_from(v.clone()).ok().expect("value fits the BigInt")
}
fn big_to_f<F: PrimeField>(v: &BigUint) -> F {
    F::from_bigint(big_to_bi::<F>(v)).expect("value below the modulus")
}
fn modulus_of<F: PrimeField>() -> BigUint {
    F::MODULUS.into()
}

fn base_ctx<G: VariableBaseMSM>(name: &str, neg: bool, bases: Bases<G>, mk_elem: Box<dyn Fn(&BigUint) -> G + Send + Sync>) -> Ctx<G> {
    let r = modulus_of::<Sc<G>>();
    Ctx {
        name: name.to_string(),
        nbits: <Sc<G> as PrimeField>::MODULUS_BIT_SIZE as usize,
        fctx: FieldCtx::new(name, <Sc<G> as PrimeField>::MODULUS.as_ref()),
        r,
        bases,
        mk_elem,
        cfg_msm: None,
        neg,
    }
}

fn zr_ctx<F: PrimeField, const NEG: bool>(fname: &str) -> Ctx<Zr<Cfg<F, NEG>>> {
    let name = format!("Zr.{}.{}", fname, if NEG { "signed" } else { "plain" });
    base_ctx(
        &name,
        NEG,
        Bases::Any(Box::new(|a| Zr(big_to_f::<F>(a)))),
        Box::new(|e| Zr(big_to_f::<F>(e))),
    )
}

fn pool_from_table<G: VariableBaseMSM>(tab: &[Mb<G>]) -> Bases<G> {
    let r = tab.len();
    Bases::Pool {
        pts: tab.iter().enumerate().map(|(i, b)| (BigUint::from(i as u64), *b)).collect(),
        neg: (0..r).map(|i| (r - i) % r).collect(),
    }
}

fn toy_sw_ctx<P: SWCurveConfig>(name: &str) -> Ctx<sw::Projective<P>> {
    let r: u64 = modulus_of::<P::ScalarField>().to_u64_digits()[0];
    let a = P::COEFF_A;
    let g = sw_from_affine(&P::GENERATOR);
    assert!(sw_on_curve(&a, &P::COEFF_B, &g));
    let mut tab = vec![Sw::Inf];
    for _ in 1..r {
        let n = sw_add(&a, tab.last().unwrap(), &g);
        tab.push(n);
    }
    assert_eq!(sw_add(&a, tab.last().unwrap(), &g), Sw::Inf, "{}: r*G != O", name);
    assert!(tab.iter().skip(1).all(|p| *p != Sw::Inf), "{}: order of G is not r", name);
    let aff: Vec<sw::Affine<P>> = tab.iter().map(|p| sw_to_affine::<P>(p)).collect();
    let aff2 = aff.clone();
    let mut c = base_ctx::<sw::Projective<P>>(
        &format!("toy.{}", name),
        true,
        pool_from_table::<sw::Projective<P>>(&aff),
        Box::new(move |e| aff2[e.to_u64_digits().first().copied().unwrap_or(0) as usize].into()),
    );
    c.cfg_msm = Some(<P as SWCurveConfig>::msm);
    c
}

fn toy_te_ctx<P: TECurveConfig>(name: &str) -> Ctx<te::Projective<P>> {
    let r: u64 = modulus_of::<P::ScalarField>().to_u64_digits()[0];
    let (a, d) = (P::COEFF_A, P::COEFF_D);
    let g = te_from_affine(&P::GENERATOR);
    assert!(te_on_curve(&a, &d, &g));
    let tab = te_subgroup(&a, &d, &g, r);
    assert_eq!(te_add(&a, &d, tab.last().unwrap(), &g), Some(te_identity()), "{}: r*G != O", name);
    assert!(tab.iter().skip(1).all(|p| *p != te_identity()), "{}: order of G is not r", name);
    let aff: Vec<te::Affine<P>> = tab.iter().map(|p| te_to_affine::<P>(p)).collect();
    let aff2 = aff.clone();
    let mut c = base_ctx::<te::Projective<P>>(
        &format!("toy.{}", name),
        true,
        pool_from_table::<te::Projective<P>>(&aff),
        Box::new(move |e| aff2[e.to_u64_digits().first().copied().unwrap_or(0) as usize].into()),
    );
    c.cfg_msm = Some(<P as TECurveConfig>::msm);
    c
}

/// naive MSB-first double-and-add (reference multiplication for shipped curves)
fn ref_mul<G: AdditiveGroup>(g: &G, k: &BigUint) -> G {
    let mut r = G::zero();
    for i in (0..k.bits()).rev() {
        r.double_in_place();
        if k.bit(i) {
            r += g;
        }
    }
    r
}

fn splitmix(x: u64) -> u64 {
    let mut z = x.wrapping_add(0x9e3779b97f4a7c15);
    z = (z ^ (z >> 30)).wrapping_mul(0xbf58476d1ce4e5b9);
    z = (z ^ (z >> 27)).wrapping_mul(0x94d049bb133111eb);
    z ^ (z >> 31)
}

/// exponents of a pool of 1 + 2*`pairs` multiples of the generator: pool[0] = identity, then pairs (a, r-a):
/// 1, 2, 3, (r-1)/2 and fixed pseudo-random constants; `neg[i]` = index of the negation of pool[i]
fn pool_exps(r: &BigUint, pairs: usize) -> (Vec<BigUint>, Vec<usize>) {
    let mut exps: Vec<BigUint> = vec![BigUint::zero()];
    let mut neg = vec![0usize];
    let mut k = 0u64;
    for j in 0..pairs {
        let a = match j {
            0 => BigUint::one(),
            1 => BigUint::from(2u32),
            2 => BigUint::from(3u32),
            3 => (r - 1u32) >> 1,
            _ => {
                let limbs = (r.bits() as usize + 63) / 64 + 1;
                let mut d = Vec::new();
                for _ in 0..2 * limbs {
                    k += 1;
                    d.push(splitmix(k.wrapping_mul(0x2545f4914f6cdd1d)) as u32);
                }
                BigUint::new(d) % r
            },
        };
        let i = exps.len();
        let na = (r - &a) % r;
        exps.push(a);
        neg.push(i + 1);
        exps.push(na);
        neg.push(i);
    }
    (exps, neg)
}

/// The target group of a pairing as an MSM group (`impl VariableBaseMSM for PairingOutput` in ec/src/pairing.rs; written
/// additively: + is the field multiplication, negation the cyclotomic inverse, doubling the cyclotomic square).
/// Generator: e(G1, G2) as the library computes it (the pairing itself is C06's subject; here it is only *an element*,
/// whose order is verified to be r with plain field arithmetic). Reference map e -> gen^e: square-and-multiply over the
/// target field's `square` and `*` only - no cyclotomic shortcut, no `PairingOutput` operation.
fn pairing_ctx<E: Pairing>(name: &str, pairs: usize) -> Ctx<PairingOutput<E>> {
    let r = modulus_of::<E::ScalarField>();
    let gen = <PairingOutput<E> as PrimeGroup>::generator().0;
    fn fpow<F: Field>(b: &F, e: &BigUint) -> F {
        let mut acc = F::one();
        for i in (0..e.bits()).rev() {
            acc = acc.square();
            if e.bit(i) {
                acc *= b;
            }
        }
        acc
    }
    assert!(!gen.is_one() && fpow(&gen, &r).is_one(), "{}: e(G1, G2) does not have order r", name);
    let (exps, neg) = pool_exps(&r, pairs);
    let pts: Vec<(BigUint, PairingOutput<E>)> = exps.iter().map(|a| (a.clone(), PairingOutput(fpow(&gen, a)))).collect();
    base_ctx::<PairingOutput<E>>(
        name,
        <PairingOutput<E> as ark_ec::ScalarMul>::NEGATION_IS_CHEAP,
        Bases::Pool { pts, neg },
        Box::new(move |e| PairingOutput(fpow(&gen, e))),
    )
}

/// shipped curve: pool of 1 + 2*`pairs` multiples of the generator (identity, then (a, r-a) pairs)
fn shipped_ctx<G: VariableBaseMSM>(name: &str, pairs: usize, cfg_msm: fn(&[Mb<G>], &[Sc<G>]) -> Result<G, usize>) -> Ctx<G> {
    let r = modulus_of::<Sc<G>>();
    let gen = G::generator();
    assert!(ref_mul(&gen, &r).is_zero(), "{}: r*G != O", name);
    assert!(!gen.is_zero());
    let (exps, neg) = pool_exps(&r, pairs);
    let pts: Vec<(BigUint, Mb<G>)> = exps.iter().map(|a| (a.clone(), <Mb<G> as From<G>>::from(ref_mul(&gen, a)))).collect();
    for (i, (a, _)) in pts.iter().enumerate() {
        assert!(((a + &pts[neg[i]].0) % &r).is_zero(), "pool negation table");
    }
    let mut c = base_ctx::<G>(name, true, Bases::Pool { pts, neg }, Box::new(move |e| ref_mul(&gen, e)));
    c.cfg_msm = Some(cfg_msm);
    c
}

// ------------------------------------------------------------------------------------------------
// generators
// ------------------------------------------------------------------------------------------------

/// window size the library derives from the usable length (replicated for *classification only*)
fn window(n: usize) -> usize {
    fn ceil_log2(n: usize) -> usize {
        if n <= 1 {
            0
        } else {
            (usize::BITS - (n - 1).leading_zeros()) as usize
        }
    }
    if n < 32 {
        3
    } else {
        ceil_log2(n) * 69 / 100 + 2
    }
}

const CNAMES: [&str; 20] = [
    "c=0", "c=1", "c=2", "c=3", "c=4", "c=5", "c=6", "c=7", "c=8", "c=9", "c=10", "c=11", "c=12", "c=13", "c=14", "c=15", "c=16", "c=17", "c=18",
    "c=19",
];

/// does the signed-digit recoding of k (window w over nbits) carry into its last digit? (classification only)
fn carries_into_last(k: &BigUint, w: usize, nbits: usize) -> bool {
    let digits = nbits.div_ceil(w);
    let mut carry = 0u64;
    for i in 0..digits {
        let mut v = 0u64;
        for b in 0..w {
            if k.bit((i * w + b) as u64) {
                v |= 1 << b;
            }
        }
        if i == digits - 1 {
            return carry == 1;
        }
        let coef = v + carry;
        carry = if coef >= (1 << (w - 1)) { 1 } else { 0 };
    }
    false
}

fn edge_scalar<G: VariableBaseMSM>(cx: &Ctx<G>, t: &mut Tape<'_>) -> BigUint {
    match t.weighted(&[10, 4, 2]) {
        0 => edge_value(t, &cx.fctx).0,
        1 => {
            // r - 1 - x with x below 2^j: saturates the top windows at every scale
            let j = t.below(cx.nbits as u64 + 1) as usize;
            let x = big_below(t, &pow2(j)) % &cx.r;
            (&cx.r - 1u32 - x) % &cx.r
        },
        _ => BigUint::from(t.below(9)) % &cx.r,
    }
}

struct Elems<G: VariableBaseMSM> {
    a: Vec<BigUint>,
    b: Vec<Mb<G>>,
    idx: Vec<usize>,
    k: Vec<BigUint>,
}

impl<G: VariableBaseMSM> Elems<G> {
    fn new() -> Self {
        Elems { a: vec![], b: vec![], idx: vec![], k: vec![] }
    }
    fn len(&self) -> usize {
        self.a.len()
    }
}

fn fresh_base<G: VariableBaseMSM>(cx: &Ctx<G>, t: &mut Tape<'_>) -> (BigUint, Mb<G>, usize) {
    match &cx.bases {
        Bases::Any(f) => {
            let a = edge_value(t, &cx.fctx).0;
            let b = f(&a);
            (a, b, 0)
        },
        Bases::Pool { pts, .. } => {
            // word 0 -> generator; identity and generator over-weighted
            let i = match t.weighted(&[2, 1, 8]) {
                0 => 1,
                1 => 0,
                _ => t.idx(pts.len()),
            };
            (pts[i].0.clone(), pts[i].1, i)
        },
    }
}

fn negated<G: VariableBaseMSM>(cx: &Ctx<G>, a: &BigUint, idx: usize) -> (BigUint, Mb<G>, usize) {
    match &cx.bases {
        Bases::Any(f) => {
            let na = (&cx.r - a) % &cx.r;
            let b = f(&na);
            (na, b, 0)
        },
        Bases::Pool { pts, neg } => {
            let j = neg[idx];
            (pts[j].0.clone(), pts[j].1, j)
        },
    }
}

/// mode: 0 mixed, 1 all scalars near r, 2 one base repeated, 3 scalars in {0, 1, 2}
fn push_elem<G: VariableBaseMSM>(cx: &Ctx<G>, t: &mut Tape<'_>, e: &mut Elems<G>, mode: usize, same_base: bool) {
    let n = e.len();
    let (a, b, i) = if n > 0 && (same_base || mode == 2) {
        (e.a[n - 1].clone(), e.b[n - 1], e.idx[n - 1])
    } else {
        match if n == 0 { 0 } else { t.weighted(&[7, 2, 1, 1]) } {
            0 => fresh_base(cx, t),
            1 => {
                let j = t.idx(n);
                let j = n - 1 - j; // word 0 -> the previous element
                (e.a[j].clone(), e.b[j], e.idx[j])
            },
            2 => negated(cx, &e.a[n - 1].clone(), e.idx[n - 1]),
            _ => {
                let z = BigUint::zero();
                match &cx.bases {
                    Bases::Any(f) => (z.clone(), f(&z), 0),
                    Bases::Pool { pts, .. } => (z, pts[0].1, 0),
                }
            },
        }
    };
    let k = match mode {
        1 => {
            let x = BigUint::from(t.below(1 << 20)) % &cx.r;
            (&cx.r - 1u32 - x) % &cx.r
        },
        3 => BigUint::from(t.below(3)) % &cx.r,
        _ => match if n == 0 { 0 } else { t.weighted(&[8, 1, 1]) } {
            0 => edge_scalar(cx, t),
            1 => e.k[n - 1].clone(),
            _ => (&cx.r - &e.k[n - 1]) % &cx.r,
        },
    };
    e.a.push(a);
    e.b.push(b);
    e.idx.push(i);
    e.k.push(k);
}

/// words reserved per element on a tape
fn words_per_elem(limbs: usize) -> usize {
    4 * limbs + 16
}

/// m elements; up to `DIRECT` straight from the tape, more through block-wise expansion of one tape word
const DIRECT: usize = 24;
fn gen_elems<G: VariableBaseMSM>(cx: &Ctx<G>, t: &mut Tape<'_>, m: usize, mode: usize) -> Elems<G> {
    let mut e = Elems::new();
    if m <= DIRECT {
        for _ in 0..m {
            push_elem(cx, t, &mut e, mode, false);
        }
        return e;
    }
    let seed = t.u64();
    let w = words_per_elem(cx.fctx.n);
    const BLK: usize = 512;
    let mut ctr = splitmix(seed);
    let mut done = 0;
    while done < m {
        let cnt = BLK.min(m - done);
        let words: Vec<u64> = (0..cnt * w)
            .map(|_| {
                ctr = ctr.wrapping_add(0x9e3779b97f4a7c15);
                splitmix(ctr)
            })
            .collect();
        let mut st = Tape::new(&words, false);
        for _ in 0..cnt {
            push_elem(cx, &mut st, &mut e, mode, false);
        }
        done += cnt;
    }
    e
}

#[derive(Clone, Copy)]
struct LenCfg {
    /// largest k for lengths 2^k + {-1, 0, 1, 2}
    max_pow: u64,
    /// largest length of the uniform class
    max_uniform: u64,
}

fn gen_len(t: &mut Tape<'_>, l: &LenCfg) -> usize {
    (match t.weighted(&[2, 2, 2, 4, 3, 6, 3]) {
        0 => 0,
        1 => 1,
        2 => 2,
        3 => t.range(3, 30),
        4 => t.range(31, 33),
        5 => {
            let k = t.range(5, l.max_pow);
            (1u64 << k) - 1 + t.below(4)
        },
        _ => t.range(34, l.max_uniform.max(34)),
    }) as usize
}

// ------------------------------------------------------------------------------------------------
// relations
// ------------------------------------------------------------------------------------------------

fn dot<G: VariableBaseMSM>(cx: &Ctx<G>, e: &Elems<G>, n: usize) -> BigUint {
    let mut acc = BigUint::zero();
    for i in 0..n {
        acc += &e.k[i] * &e.a[i];
    }
    acc % &cx.r
}

fn describe<G: VariableBaseMSM>(cx: &Ctx<G>, e: &Elems<G>, upto: usize) -> String {
    let mut s = String::new();
    for i in 0..e.len().min(upto) {
        s.push_str(&format!("({}*[{}]G) ", e.k[i], e.a[i]));
    }
    if e.len() > upto {
        s.push_str(&format!("… {} more", e.len() - upto));
    }
    format!("{} r={} | pairs k*[a]G: {}", cx.name, cx.r, s)
}

struct Shape {
    last_window: bool,
    carry_last: bool,
    repeated: bool,
    identity: bool,
    zero_k: bool,
    one_k: bool,
    rm1_k: bool,
}

fn shape<G: VariableBaseMSM>(cx: &Ctx<G>, e: &Elems<G>, n: usize) -> Shape {
    let c = window(n);
    let digits = cx.nbits.div_ceil(c);
    let thr = (c * (digits - 1)) as u64;
    let mut s = Shape { last_window: false, carry_last: false, repeated: false, identity: false, zero_k: false, one_k: false, rm1_k: false };
    let rm1 = &cx.r - 1u32;
    let mut seen = std::collections::BTreeSet::new();
    for i in 0..n {
        let k = &e.k[i];
        s.last_window |= k.bits() > thr;
        s.carry_last |= digits > 1 && carries_into_last(k, c, cx.nbits);
        s.identity |= e.a[i].is_zero();
        s.zero_k |= k.is_zero();
        s.one_k |= k.is_one();
        s.rm1_k |= *k == rm1;
        if !seen.insert(&e.a[i]) {
            s.repeated = true;
        }
    }
    s
}

fn check_eq<G: VariableBaseMSM>(got: &G, want: &G, sig: &str, ctx: &dyn Fn() -> String) -> R {
    ensure!(got == want, sig, "{}: got {} expected {} :: {}", sig, got, want, ctx());
    Ok(())
}

fn check_res<G: VariableBaseMSM>(got: &Result<G, usize>, want: &G, lb: usize, ls: usize, sig: &str, ctx: &dyn Fn() -> String) -> R {
    if lb == ls {
        match got {
            Ok(g) => check_eq(g, want, sig, ctx),
            Err(n) => vh_core::fail(format!("{}.err-on-equal", sig), format!("{} returned Err({}) for equal lengths {} :: {}", sig, n, lb, ctx())),
        }
    } else {
        match got {
            Err(n) => {
                ensure!(*n == lb.min(ls), format!("{}.err-len", sig), "{} returned Err({}) for lengths ({}, {}), documented: the shortest length :: {}", sig, n, lb, ls, ctx());
                Ok(())
            },
            Ok(_) => vh_core::fail(format!("{}.ok-on-mismatch", sig), format!("{} returned Ok for lengths ({}, {}) :: {}", sig, lb, ls, ctx())),
        }
    }
}

fn msm_rel<G: VariableBaseMSM>(cx: &Ctx<G>, t: &mut Tape<'_>, o: &mut Obs, lc: &LenCfg, fixed_len: Option<usize>) -> R {
    let base_len = match fixed_len {
        // around a fixed boundary n (the msm_chunks step): mostly just above it
        Some(n) => match t.weighted(&[3, 3, 2, 1]) {
            0 => n + 1,
            1 => n + 2,
            2 => n + 41,
            _ => n,
        },
        None => gen_len(t, lc),
    };
    // length pair: equal, bases longer, scalars longer
    let (lb, ls) = match t.weighted(&[6, 1, 1]) {
        0 => (base_len, base_len),
        x => {
            let d = match t.below(3) {
                0 => 1,
                1 => 2,
                _ => t.range(1, 40) as usize,
            };
            if x == 1 {
                (base_len + d, base_len)
            } else {
                (base_len, base_len + d)
            }
        },
    };
    let mode = t.weighted(&[10, 2, 1, 1]);
    let n = lb.min(ls);
    let m = lb.max(ls);
    let e = gen_elems(cx, t, m, mode);
    let c = window(n);
    let sh = shape(cx, &e, n);
    o.show(|| format!("lens(bases,scalars)=({},{}) c={} mode={} {}", lb, ls, c, mode, describe(cx, &e, 4)));
    o.nt(n >= 2 && (sh.last_window || sh.repeated));
    o.class(CNAMES[c.min(19)]);
    o.class(if n < 32 { "n<32" } else { "n>=32" });
    o.class_if(n == 0, "n=0");
    o.class_if(n == 1, "n=1");
    o.class_if((31..=33).contains(&n), "n=31..33");
    o.class_if(lb != ls, "len-mismatch");
    o.class_if(sh.last_window, "scalar-in-last-window");
    o.class_if(sh.carry_last && cx.neg, "signed-digit-carry-into-last");
    o.class_if(sh.repeated, "repeated-base");
    o.class_if(sh.identity, "identity-base");
    o.class_if(sh.zero_k, "zero-scalar");
    o.class_if(sh.one_k, "unit-scalar");
    o.class_if(sh.rm1_k, "scalar=r-1");
    o.class_if(cx.nbits < c, "window-wider-than-scalar");
    o.class_if(m > DIRECT, "bulk-expanded");

    let want = (cx.mk_elem)(&dot(cx, &e, n));
    let scal: Vec<Sc<G>> = e.k.iter().map(big_to_f::<Sc<G>>).collect();
    let bigs: Vec<Bi<G>> = e.k.iter().map(big_to_bi::<Sc<G>>).collect();
    let (bases, scal, bigs) = (&e.b[..lb], &scal[..ls], &bigs[..ls]);
    let ctx = || format!("lens(bases,scalars)=({},{}) c={} {}", lb, ls, c, describe(cx, &e, 8));
    o.evals(4);

    let got = no_panic("msm", || G::msm(bases, scal))?;
    check_res(&got, &want, lb, ls, "msm", &ctx)?;
    let got = no_panic("msm_unchecked", || G::msm_unchecked(bases, scal))?;
    check_eq(&got, &want, "msm_unchecked", &ctx)?;
    let got = no_panic("msm_bigint", || G::msm_bigint(bases, bigs))?;
    check_eq(&got, &want, "msm_bigint", &ctx)?;
    // streams of equal length (the usable prefix)
    let (sb, ss) = (&bases[..n], &scal[..n]);
    let got = no_panic("msm_chunks", || G::msm_chunks(&sb, &ss))?;
    check_eq(&got, &want, "msm_chunks", &ctx)?;
    if n <= 1 << 16 || e.k[0].bit(0) {
        // the same streams handed over back to front through the `Reverse` adaptor of ark_std::iterable (how streaming
        // callers hold coefficient vectors): an `Iterable` that is not a slice
        let rb: Vec<Mb<G>> = sb.iter().rev().copied().collect();
        let rs: Vec<Sc<G>> = ss.iter().rev().copied().collect();
        let (rbs, rss) = (&rb[..], &rs[..]);
        let got = no_panic("msm_chunks.reverse", || G::msm_chunks(&Reverse(rbs), &Reverse(rss)))?;
        check_eq(&got, &want, "msm_chunks.reverse", &ctx)?;
        o.evals(1);
    }
    if lb > ls {
        // a base stream longer than the scalar stream is accepted (the function asserts scalars <= bases) and
        // "aligned" by discarding the leading lb - ls bases: scalar i goes with base lb - ls + i
        let off = lb - ls;
        let mut acc = BigUint::zero();
        for i in 0..ls {
            acc += &e.k[i] * &e.a[off + i];
        }
        let want_tail = (cx.mk_elem)(&(acc % &cx.r));
        let got = no_panic("msm_chunks.longer-bases", || G::msm_chunks(&bases, &scal))?;
        check_eq(&got, &want_tail, "msm_chunks.longer-bases", &ctx)?;
        o.class("chunks-longer-bases");
    }
    if let Some(f) = cx.cfg_msm {
        let got = no_panic("config.msm", || f(bases, scal))?;
        check_res(&got, &want, lb, ls, "config.msm", &ctx)?;
        o.evals(1);
    }
    if n <= 3 {
        // harness self-check of the discrete-log oracle against the group's own scalar multiplication
        let mut s = G::zero();
        for i in 0..n {
            s += e.b[i] * scal[i];
        }
        check_eq(&s, &want, "oracle-vs-scalar-mul", &ctx)?;
    }
    Ok(())
}

fn pick_buf(t: &mut Tape<'_>, m: usize) -> usize {
    match t.weighted(&[2, 2, 2, 2, 4]) {
        0 => m + 1,
        1 => 1,
        2 => m.max(1),
        3 => 2,
        _ => t.range(1, m as u64 + 1) as usize,
    }
}

fn hist_rel<G: VariableBaseMSM>(cx: &Ctx<G>, t: &mut Tape<'_>, o: &mut Obs, max_ops: u64) -> R {
    let l = match t.weighted(&[1, 1, 2, 6, 5, 2]) {
        0 => 0,
        1 => 1,
        2 => 2,
        3 => t.range(3, 12),
        4 => t.range(13, 40),
        _ => t.range(41, max_ops.max(41)),
    } as usize;
    let mode = t.weighted(&[10, 2, 1]);
    // decode the history: Add(fresh base, scalar) | AddSameBase(scalar) | Finalize
    let mut e: Elems<G> = Elems::new();
    let mut segs: Vec<Vec<usize>> = vec![vec![]];
    let mut hist = String::new();
    for _ in 0..l {
        match t.weighted(&[6, 3, 1]) {
            2 => {
                segs.push(vec![]);
                hist.push_str("Fin ");
            },
            x => {
                push_elem(cx, t, &mut e, mode, x == 1);
                let i = e.len() - 1;
                segs.last_mut().unwrap().push(i);
                if i < 12 {
                    hist.push_str(&format!("Add({}*[{}]G) ", e.k[i], e.a[i]));
                }
            },
        }
    }
    if segs.len() > 1 && segs.last().unwrap().is_empty() {
        segs.pop(); // history ended with Finalize
    }
    let scal: Vec<Sc<G>> = e.k.iter().map(big_to_f::<Sc<G>>).collect();
    let bigs: Vec<Bi<G>> = e.k.iter().map(big_to_bi::<Sc<G>>).collect();
    let mut bufs = vec![];
    let mut nt = false;
    for seg in &segs {
        let m = seg.len();
        let cb = pick_buf(t, m);
        let hb = pick_buf(t, m);
        let with_size = t.bool();
        bufs.push((cb, hb));
        let mut cp = if with_size { ChunkedPippenger::<G>::with_size(cb) } else { ChunkedPippenger::<G>::new(cb) };
        let mut hp = HashMapPippenger::<G>::new(hb);
        let mut model = BigUint::zero();
        // model of the buffers (classification only)
        let mut pending = 0usize;
        let mut distinct = std::collections::BTreeSet::new();
        let (mut cflush, mut hflush, mut repeated, mut merged_pending) = (0, 0, false, false);
        let mut seen = std::collections::BTreeSet::new();
        let r = no_panic("history", || {
            for (j, &i) in seg.iter().enumerate() {
                if j % 2 == 0 {
                    cp.add(&e.b[i], &bigs[i]);
                    hp.add(&e.b[i], &scal[i]);
                } else {
                    cp.add(e.b[i], bigs[i]);
                    hp.add(e.b[i], scal[i]);
                }
                model += &e.k[i] * &e.a[i];
                pending += 1;
                if pending == cb {
                    cflush += 1;
                    pending = 0;
                }
                if !distinct.insert(e.a[i].clone()) {
                    merged_pending = true;
                }
                if distinct.len() == hb {
                    hflush += 1;
                    distinct.clear();
                }
                if !seen.insert(e.a[i].clone()) {
                    repeated = true;
                }
            }
            (cp.finalize(), hp.finalize())
        })?;
        let want = (cx.mk_elem)(&(model % &cx.r));
        let sh_last = {
            let sub = Elems::<G> { a: seg.iter().map(|&i| e.a[i].clone()).collect(), b: vec![], idx: vec![], k: seg.iter().map(|&i| e.k[i].clone()).collect() };
            shape(cx, &sub, m).last_window
        };
        nt |= m >= 2 && (repeated || cflush > 0 || hflush > 0 || sh_last);
        o.class_if(cflush > 0, "chunked-flush-before-finalize");
        o.class_if(cflush > 0 && pending == 0, "chunked-finalize-on-empty-buffer");
        o.class_if(hflush > 0, "hashmap-flush-before-finalize");
        o.class_if(merged_pending, "hashmap-merged-equal-bases");
        o.class_if(m == 0, "finalize-without-add");
        o.class_if(repeated, "repeated-base");
        o.evals(2);
        let ctx = || format!("{} r={} segment of {} adds (chunked buf {}, hashmap buf {}), history: {}", cx.name, cx.r, m, cb, hb, hist);
        check_eq(&r.0, &want, "chunked.finalize", &ctx)?;
        check_eq(&r.1, &want, "hashmap.finalize", &ctx)?;
    }
    o.class_if(segs.len() > 1, "several-accumulators");
    o.nt(nt);
    o.show(|| format!("{} r={} ops={} segments={} bufs(chunked,hashmap)={:?} :: {}", cx.name, cx.r, l, segs.len(), &bufs[..bufs.len().min(4)], hist));
    Ok(())
}

/// exhaustive: every (a_1, k_1, …, a_n, k_n) in [0, r)^{2n} for a tiny group; exact-mode tape
fn exh_rel<G: VariableBaseMSM>(cx: &Ctx<G>, t: &mut Tape<'_>, o: &mut Obs, n: usize) -> R {
    let r = cx.r.to_u64_digits()[0];
    let mut e: Elems<G> = Elems::new();
    for _ in 0..n {
        let a = BigUint::from(t.below(r));
        let k = BigUint::from(t.below(r));
        let (b, i) = match &cx.bases {
            Bases::Any(f) => (f(&a), 0),
            Bases::Pool { pts, .. } => {
                let i = a.to_u64_digits().first().copied().unwrap_or(0) as usize;
                (pts[i].1, i)
            },
        };
        e.a.push(a);
        e.b.push(b);
        e.idx.push(i);
        e.k.push(k);
    }
    let sh = shape(cx, &e, n);
    o.nt(n >= 2 && (sh.last_window || sh.repeated));
    o.show(|| describe(cx, &e, 8));
    let want = (cx.mk_elem)(&dot(cx, &e, n));
    let scal: Vec<Sc<G>> = e.k.iter().map(big_to_f::<Sc<G>>).collect();
    let bigs: Vec<Bi<G>> = e.k.iter().map(big_to_bi::<Sc<G>>).collect();
    let ctx = || describe(cx, &e, 8);
    o.evals(1);
    check_eq(&G::msm_bigint(&e.b, &bigs), &want, "msm_bigint", &ctx)?;
    check_res(&G::msm(&e.b, &scal), &want, n, n, "msm", &ctx)
}

fn exh_tapes(r: u64, n: usize) -> Box<dyn Iterator<Item = Vec<u64>>> {
    let total = r.pow(2 * n as u32);
    Box::new((0..total).map(move |mut x| {
        let mut v = Vec::with_capacity(2 * n);
        for _ in 0..2 * n {
            v.push(x % r);
            x /= r;
        }
        v
    }))
}

struct Budget {
    msm: u32,
    hist: u32,
    len: LenCfg,
    max_ops: u64,
}

fn add_group<G: VariableBaseMSM>(out: &mut Vec<Rel>, cx: Ctx<G>, b: Budget) -> Arc<Ctx<G>> {
    let cx = Arc::new(cx);
    let w = words_per_elem(cx.fctx.n);
    let (c1, lc) = (cx.clone(), b.len);
    out.push(Rel::new(format!("msm/{}", cx.name), b.msm, DIRECT * w + 64, move |t, o| msm_rel(&c1, t, o, &lc, None)).shrink_iters(600));
    let (c2, mo) = (cx.clone(), b.max_ops);
    out.push(Rel::new(format!("history/{}", cx.name), b.hist, (b.max_ops as usize) * (w + 1) + 4 * 40 + 16, move |t, o| hist_rel(&c2, t, o, mo)).shrink_iters(600));
    cx
}

fn relations(tier: Tier) -> Vec<Rel> {
    let mut out = Vec::new();
    let q = |a: u32, b: u32| tier.pick(a, b);

    // (i) harness groups Zr: plain-bucket (NEG = false) and signed-digit (NEG = true) implementations
    macro_rules! zr {
        ($f:ty, $name:expr, $msm:expr, $exh:expr, $step:expr) => {{
            let len = LenCfg { max_pow: tier.pick(12, 17), max_uniform: tier.pick(2600, 6000) };
            let b = || Budget { msm: q($msm, $msm * 10), hist: q(600, 6000), len, max_ops: tier.pick(120, 400) };
            let p = add_group(&mut out, zr_ctx::<$f, false>($name), b());
            let s = add_group(&mut out, zr_ctx::<$f, true>($name), b());
            if $exh > 0 {
                let r = p.r.to_u64_digits()[0];
                let n: usize = $exh;
                let (p2, s2) = (p.clone(), s.clone());
                out.push(Rel::new(format!("exhaustive-n{}/{}", n, p.name), 0, 2 * n, move |t, o| exh_rel(&p2, t, o, n)).exhaustive(move || exh_tapes(r, n)));
                out.push(Rel::new(format!("exhaustive-n{}/{}", n, s.name), 0, 2 * n, move |t, o| exh_rel(&s2, t, o, n)).exhaustive(move || exh_tapes(r, n)));
            }
            if $step {
                // crosses the hard-coded 2^20 step of msm_chunks
                let (p2, s2) = (p.clone(), s.clone());
                let cases = q(4, 16);
                out.push(Rel::new(format!("chunks-step/{}", p.name), cases, 64, move |t, o| msm_rel(&p2, t, o, &len, Some(1 << 20))).shrink_iters(8));
                out.push(Rel::new(format!("chunks-step/{}", s.name), cases, 64, move |t, o| msm_rel(&s2, t, o, &len, Some(1 << 20))).shrink_iters(8));
            }
        }};
    }
    zr!(zoo::P64, "P64", 2000, 0, true); // 1 limb, 64-bit modulus, no spare bit
    zr!(zoo::P128, "P128", 1500, 0, false); // 2 limbs, no spare bit
    zr!(zoo::Bls381Fr, "Bls381Fr", 1500, 0, false); // 4 limbs, 255 bits
    zr!(zoo::T251, "T251", 2000, 0, false); // 8 bits
    zr!(zoo::T3, "T3", 1000, tier.pick(4, 5), false); // 2 bits: the window is always wider than the scalar
    zr!(zoo::P192, "P192", 400, 0, false); // 3 limbs, 192-bit modulus, no spare bit (192 = 3*64 = 6*32 = 12*16)
    zr!(zoo::N6, "N6", 400, 0, false); // 6 limbs, 384-bit modulus, no spare bit
    zr!(zoo::N12, "N12", 250, 0, false); // 12 limbs, no spare bit

    // (ii) toy curves (bases: the whole prime-order subgroup, table from the affine oracle law)
    let toy_b = |big: bool| Budget {
        msm: q(1000, 15000),
        hist: q(400, 6000),
        len: LenCfg { max_pow: tier.pick(if big { 8 } else { 9 }, 12), max_uniform: tier.pick(400, 1500) },
        max_ops: tier.pick(80, 300),
    };
    add_group(&mut out, toy_sw_ctx::<toy::SwA0P1>("SwA0P1"), toy_b(false));
    add_group(&mut out, toy_sw_ctx::<toy::SwAxH4>("SwAxH4"), toy_b(false));
    add_group(&mut out, toy_sw_ctx::<toy::SwBigAx>("SwBigAx"), toy_b(true));
    let tec1 = add_group(&mut out, toy_te_ctx::<toy::TeC1>("TeC1"), toy_b(false));
    add_group(&mut out, toy_te_ctx::<toy::TeN>("TeN"), toy_b(false));
    add_group(&mut out, toy_te_ctx::<toy::TeBig>("TeBig"), toy_b(true));
    {
        let c = tec1.clone();
        out.push(Rel::new(format!("exhaustive-n2/{}", c.name), 0, 4, move |t, o| exh_rel(&c, t, o, 2)).exhaustive(move || exh_tapes(13, 2)));
    }

    // (iii) shipped curves
    let ship_b = || Budget {
        msm: q(300, 4000),
        hist: q(150, 2000),
        len: LenCfg { max_pow: tier.pick(8, 11), max_uniform: tier.pick(140, 1200) },
        max_ops: tier.pick(60, 200),
    };
    add_group(
        &mut out,
        shipped_ctx::<ark_bls12_381::G1Projective>("bls12_381.G1", 20, <ark_bls12_381::g1::Config as SWCurveConfig>::msm),
        ship_b(),
    );
    add_group(
        &mut out,
        shipped_ctx::<ark_ed_on_bls12_381::EdwardsProjective>("ed_on_bls12_381", 20, <ark_ed_on_bls12_381::EdwardsConfig as TECurveConfig>::msm),
        ship_b(),
    );
    add_group(
        &mut out,
        shipped_ctx::<ark_secp256k1::Projective>("secp256k1", 20, <ark_secp256k1::Config as SWCurveConfig>::msm),
        ship_b(),
    );
    // (iv) target groups of pairings (`impl VariableBaseMSM for PairingOutput`, every method the trait default)
    let pair_b = || Budget {
        msm: q(40, 600),
        hist: q(20, 300),
        len: LenCfg { max_pow: tier.pick(6, 8), max_uniform: tier.pick(70, 300) },
        max_ops: tier.pick(40, 120),
    };
    add_group(&mut out, pairing_ctx::<ark_bls12_381::Bls12_381>("PairingOutput.bls12_381", 8), pair_b());
    add_group(&mut out, pairing_ctx::<ark_mnt4_298::MNT4_298>("PairingOutput.mnt4_298", 8), pair_b());
    add_group(&mut out, pairing_ctx::<ark_mnt6_298::MNT6_298>("PairingOutput.mnt6_298", 8), pair_b());
    out
}

fn main() {
    vh_core::engine::main(PropSpec {
        id: "C05",
        rule: "An instance is a length pair (|bases|, |scalars|) (0, 1, 2, 3..30, 31..33, 2^k-1..2^k+2 for every k up to the tier bound – this brackets every change of the window size c = ln_without_floats(n)+2 – and uniform; equal, or one side longer by 1, 2 or up to 40) and a vector of (base, scalar) pairs decoded from a proptest tape (up to 24 pairs word by word, longer vectors by deterministic block expansion of one tape word). Bases are known multiples a*Gen (fresh edge value / pool point, repeat of an earlier base, negation of the previous base, identity); scalars are edge values of the scalar field (0, 1, 2, r-1, near r, 2^k±1, edge limbs, uniform), r-1-x at every scale (saturates the top windows), small, repeat or negation of the previous scalar; modes: all scalars near r, a single repeated base, all scalars in {0,1,2}. Groups: the harness group Zr = (F,+) with NEGATION_IS_CHEAP = false (plain-bucket implementation) and = true (signed-digit) over a 64-bit no-spare-bit field, a 2-limb, a 3-limb (192 bits), a 4-limb, a 6-limb (384 bits), a 12-limb (768 bits), an 8-bit and a 2-bit field; toy SW/TE curves; BLS12-381 G1, ed_on_bls12_381, secp256k1; the pairing target groups PairingOutput<Bls12_381>, <MNT4_298>, <MNT6_298> (bases = known powers of e(G1,G2), whose order r is verified with plain field arithmetic; lengths up to 70, thorough 300). msm_chunks is additionally called on the reversed streams through ark_std's Reverse adaptor. Every entry point (msm, msm_unchecked, msm_bigint, msm_chunks, SWCurveConfig/TECurveConfig::msm) must return (Σ k_i a_i mod r)*Gen, Err(min) for unequal lengths on checked entry points. Histories: a sequence of Add(base, scalar) | AddSameBase(scalar) | Finalize decoded from the tape is run through ChunkedPippenger and HashMapPippenger with buffer sizes in 1..=adds+1 (a new accumulator after each Finalize); finalize must equal the model sum. A case is non-trivial when the usable length is >= 2 and some scalar has a bit in the last window (k >= 2^(c*(digits-1))) or a base is repeated, or (histories) a flush happens before finalize; distinct = distinct decoded choice sequences.",
        assumptions: &[
            "num-bigint arithmetic is correct (dot product mod r)",
            "the harness group Zr uses arkworks prime-field addition (C01's subject) as its group law",
            "toy-curve tables come from the textbook affine law of vh_core::curve; shipped-curve reference multiples use arkworks' projective add/double (C03's subject) in a naive double-and-add; pairing target groups: reference powers by square-and-multiply over the target field's square and * (C02's subject), e(G1,G2) only serves as an element of verified order r",
            "bases are members of the prime-order subgroup (AffineRepr contract); msm_bigint is called with integers below r (what every caller in the library passes); msm_chunks is called with streams of equal length, and with a longer base stream, where the code's alignment (scalars go with the last |scalars| bases) is the reference",
        ],
        relations,
    })
}
