//! C05 — not implemented yet.
fn main() {
    eprintln!("C05: check not implemented");
    std::process::exit(2);
}
