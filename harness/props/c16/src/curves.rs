//! Curve configurations: short Weierstrass / twisted Edwards parameters, cofactors, GLV parameters,
//! Montgomery forms, SWU / WB / Elligator2 parameters.  Curve equations, group laws and scalar
//! multiplications are the harness' own (`vh_core::curve`: affine chord-and-tangent, affine Edwards
//! law, MSB-first double-and-add) over arkworks *field* arithmetic (subject of C01/C02).
use crate::util::*;
use ark_ec::hashing::curve_maps::elligator2::Elligator2Config;
use ark_ec::hashing::curve_maps::swu::SWUConfig;
use ark_ec::hashing::curve_maps::wb::WBConfig;
use ark_ec::models::short_weierstrass::SWCurveConfig;
use ark_ec::models::twisted_edwards::{MontCurveConfig, TECurveConfig};
use ark_ec::models::CurveConfig;
use ark_ec::scalar_mul::glv::GLVConfig;
use ark_ec::AffineRepr;
use ark_ff::{Field, PrimeField};
use num_bigint::{BigInt, BigUint};
use num_traits::{One, Zero};
use std::sync::Arc;
use vh_core::curve::*;
use vh_core::engine::{no_panic, Obs, Rel, Tape, Tier, R};
use vh_core::gen::big_below;
use vh_core::modint::*;
use vh_core::tower::{edge_elem, Elem, OracleRepr, Tower};

pub struct Common {
    pub name: &'static str,
    pub h: BigUint,
    pub h_limbs: Vec<u64>,
    pub r: BigUint,
    pub cof_inv: BigUint,
    pub cofactor_is_one: bool,
    /// number of elements of the base field
    pub q: BigUint,
    pub tw: Tower,
    pub prime: FieldCtx,
    /// the square-root precomputation of the base field and of its prime subfield agree with their recomputation;
    /// otherwise arkworks' Tonelli-Shanks may not terminate and no curve witnesses are generated (the inconsistency
    /// itself is reported by `fp.derived` / `ext.structure`)
    pub sqrt_safe: bool,
}

fn sqrt_safe<F: Field + OracleRepr>(tw: &Tower) -> bool {
    use crate::fields::{check_sqrt, sqrt_data, SqrtD};
    use ark_ff::SqrtPrecomputation;
    let own = check_sqrt(tw, &sqrt_data::<F>(), &mut Obs::default()).is_ok();
    let mut ptw = tw;
    while let Tower::Ext { base, .. } = ptw {
        ptw = base;
    }
    let lift = |x: &F::BasePrimeField| Elem::P(big(x.into_bigint().as_ref()));
    let pd = match <F::BasePrimeField as Field>::SQRT_PRECOMP {
        None => SqrtD::None,
        Some(SqrtPrecomputation::TonelliShanks { two_adicity, quadratic_nonresidue_to_trace, trace_of_modulus_minus_one_div_two }) => {
            SqrtD::TonelliShanks { s: two_adicity, z: lift(&quadratic_nonresidue_to_trace), tm1d2: big(trace_of_modulus_minus_one_div_two) }
        },
        Some(SqrtPrecomputation::Case3Mod4 { modulus_plus_one_div_four }) => SqrtD::Case3Mod4 { e: big(modulus_plus_one_div_four) },
        #[allow(unreachable_patterns)]
        Some(_) => SqrtD::Unknown,
    };
    own && check_sqrt(ptw, &pd, &mut Obs::default()).is_ok()
}

fn prime_ctx(tw: &Tower) -> FieldCtx {
    let mut l = tw.characteristic().to_u64_digits();
    if l.is_empty() {
        l.push(0);
    }
    FieldCtx::new("", &l)
}

fn common<P: CurveConfig>(name: &'static str) -> Common
where
    P::BaseField: OracleRepr,
    P::ScalarField: OracleRepr,
{
    let tw = <P::BaseField as OracleRepr>::tower();
    let cof_inv = match P::COFACTOR_INV.to_o() {
        Elem::P(v) => v,
        _ => unreachable!(),
    };
    Common {
        name,
        h: big(P::COFACTOR),
        h_limbs: P::COFACTOR.to_vec(),
        r: big(<P::ScalarField as PrimeField>::MODULUS.as_ref()),
        cof_inv,
        cofactor_is_one: P::cofactor_is_one(),
        q: tw.order(),
        prime: prime_ctx(&tw),
        sqrt_safe: sqrt_safe::<P::BaseField>(&tw),
        tw,
    }
}

pub fn rand_elem(t: &mut Tape<'_>, tw: &Tower, prime: &FieldCtx) -> Elem {
    if t.chance(1, 8) {
        edge_elem(t, tw, prime).0
    } else {
        let c: Vec<BigUint> = (0..tw.degree()).map(|_| big_below(t, &prime.p)).collect();
        tw.unflatten(&c)
    }
}

fn elem_words(tw: &Tower, prime: &FieldCtx) -> usize {
    tw.degree() * (3 * prime.n + 4) + 6
}

fn show_f<F: OracleRepr>(tw: &Tower, x: &F) -> String {
    show_elem(tw, &x.to_o())
}

fn show_sw<F: Field + OracleRepr>(tw: &Tower, p: &Sw<F>) -> String {
    match p {
        Sw::Inf => "O".into(),
        Sw::Aff(x, y) => format!("({}, {})", show_f(tw, x), show_f(tw, y)),
    }
}

/// identities shared by both models: cofactor inverse, Hasse interval
fn common_identity(c: &Common, which: u64, o: &mut Obs) -> R {
    match which {
        0 => {
            o.show(|| format!("{}: r = {} is prime", c.name, hx(&c.r)));
            check(is_probable_prime(&c.r), "r.prime", || format!("scalar field modulus {} is not prime", hx(&c.r)))
        },
        1 => {
            o.show(|| format!("{}: COFACTOR = {} COFACTOR_INV = {}", c.name, hx(&c.h), hx(&c.cof_inv)));
            check(!c.h.is_zero(), "COFACTOR.zero", || "COFACTOR is zero".into())?;
            check(c.cofactor_is_one == c.h.is_one(), "cofactor_is_one", || format!("cofactor_is_one() = {} for COFACTOR limbs {:x?}", c.cofactor_is_one, c.h_limbs))?;
            let prod = (&c.h * &c.cof_inv) % &c.r;
            check(prod.is_one(), "COFACTOR_INV", || format!("COFACTOR * COFACTOR_INV mod r = {} expected 1", hx(&prod)))
        },
        _ => {
            // |q + 1 - h r| <= 2 sqrt(q)
            let n = &c.h * &c.r;
            let tr = BigInt::from(&c.q + 1u32) - BigInt::from(n.clone());
            let unique = &c.r * &c.r > &c.q * 16u32;
            o.class(if unique { "hasse-unique-multiple-of-r" } else { "hasse-several-multiples-of-r" });
            o.show(|| format!("{}: h*r = {} lies in the Hasse interval of q = {} (trace {})", c.name, hx(&n), hx(&c.q), tr));
            check(&tr * &tr <= BigInt::from(&c.q * 4u32), "hasse", || format!("h*r = {} is outside [q+1-2sqrt(q), q+1+2sqrt(q)], q = {}", hx(&n), hx(&c.q)))
        },
    }
}

// ------------------------------------------------------------------------------------------------
// short Weierstrass
// ------------------------------------------------------------------------------------------------

pub struct SwData<F: Field> {
    pub c: Common,
    pub a: F,
    pub b: F,
    pub g: Sw<F>,
    pub mul_by_a: fn(F) -> F,
    pub add_b: fn(F) -> F,
}

pub fn sw_data<P: SWCurveConfig>(name: &'static str) -> SwData<P::BaseField>
where
    P::BaseField: OracleRepr,
    P::ScalarField: OracleRepr,
{
    SwData { c: common::<P>(name), a: P::COEFF_A, b: P::COEFF_B, g: sw_from_affine::<P>(&P::GENERATOR), mul_by_a: P::mul_by_a, add_b: P::add_b }
}

pub fn sw_rhs<F: Field>(a: &F, b: &F, x: &F) -> F {
    x.square() * x + *a * x + b
}

/// a point of the curve decoded from the tape: x from the tape, moved upwards until x^3 + a x + b is a square
pub fn sw_point<F: Field + OracleRepr>(t: &mut Tape<'_>, a: &F, b: &F, c: &Common) -> Sw<F> {
    let (tw, prime) = (&c.tw, &c.prime);
    if !c.sqrt_safe || t.chance(1, 32) {
        return Sw::Inf;
    }
    let mut x = F::from_o(&rand_elem(t, tw, prime));
    let flip = t.bool();
    for _ in 0..512 {
        let rhs = sw_rhs(a, b, &x);
        if let Some(y) = rhs.sqrt() {
            if y.square() == rhs {
                return Sw::Aff(x, if flip { -y } else { y });
            }
        }
        x += F::ONE;
    }
    Sw::Inf
}

fn sw_params<F: Field + OracleRepr>(d: &SwData<F>, i: u64, o: &mut Obs) -> R {
    let c = &d.c;
    o.nt(true);
    match i {
        0 => {
            o.show(|| format!("{}: y^2 = x^3 + {} x + {}, generator {}", c.name, show_f(&c.tw, &d.a), show_f(&c.tw, &d.b), show_sw(&c.tw, &d.g)));
            let disc = d.a.square() * d.a * F::from(4u64) + d.b.square() * F::from(27u64);
            check(!disc.is_zero(), "curve.singular", || "4a^3 + 27b^2 = 0".into())?;
            check(d.g != Sw::Inf, "GENERATOR.identity", || "GENERATOR is the point at infinity".into())?;
            check(sw_on_curve(&d.a, &d.b, &d.g), "GENERATOR.on-curve", || format!("GENERATOR {} does not satisfy the curve equation", show_sw(&c.tw, &d.g)))
        },
        1 => {
            o.show(|| format!("{}: r*G = O for r = {}", c.name, hx(&c.r)));
            let rg = sw_mul(&d.a, &d.g, &c.r);
            check(rg == Sw::Inf, "GENERATOR.order", || format!("r*G = {} expected the point at infinity", show_sw(&c.tw, &rg)))
        },
        _ => common_identity(c, i - 2, o),
    }
}

fn sw_cofactor<F: Field + OracleRepr>(d: &SwData<F>, t: &mut Tape<'_>, o: &mut Obs) -> R {
    let c = &d.c;
    let p = sw_point(t, &d.a, &d.b, c);
    o.nt(p != Sw::Inf);
    o.class_if(!c.sqrt_safe, "sqrt-precomp-inconsistent:no-witness");
    o.show(|| format!("{}: P = {}", c.name, show_sw(&c.tw, &p)));
    check(sw_on_curve(&d.a, &d.b, &p), "generator.off-curve", || "harness bug: generated point off the curve".into())?;
    let hp = sw_mul(&d.a, &p, &c.h);
    o.class_if(hp == Sw::Inf && p != Sw::Inf, "h*P=O");
    o.class_if(c.h.is_one(), "cofactor-one");
    let rhp = sw_mul(&d.a, &hp, &c.r);
    check(rhp == Sw::Inf, "cofactor.order", || format!("r*(h*P) = {} != O for the curve point P = {}: h*r does not annihilate the group", show_sw(&c.tw, &rhp), show_sw(&c.tw, &p)))
}

fn coeff_helpers<F: Field + OracleRepr>(c: &Common, a: &F, b: Option<&F>, mul_by_a: fn(F) -> F, add_b: Option<fn(F) -> F>, t: &mut Tape<'_>, o: &mut Obs) -> R {
    let e = rand_elem(t, &c.tw, &c.prime);
    o.nt(!c.tw.is_zero(&e));
    o.show(|| format!("{}: e = {}", c.name, show_elem(&c.tw, &e)));
    let ef = F::from_o(&e);
    let got = no_panic("mul_by_a", || mul_by_a(ef))?.to_o();
    let want = c.tw.mul(&e, &a.to_o());
    check(got == want, "mul_by_a", || format!("mul_by_a({}) = {} expected {}", show_elem(&c.tw, &e), show_elem(&c.tw, &got), show_elem(&c.tw, &want)))?;
    if let (Some(b), Some(add_b)) = (b, add_b) {
        let got = no_panic("add_b", || add_b(ef))?.to_o();
        let want = c.tw.add(&e, &b.to_o());
        check(got == want, "add_b", || format!("add_b({}) = {} expected {}", show_elem(&c.tw, &e), show_elem(&c.tw, &got), show_elem(&c.tw, &want)))?;
    }
    Ok(())
}

pub fn witnesses(tier: Tier, cost: u32) -> u32 {
    (tier.pick(64u32, 512u32) / cost.max(1)).max(4)
}

pub fn sw_rels<F: Field + OracleRepr>(out: &mut Vec<Rel>, d: SwData<F>, tier: Tier, cost: u32) {
    let name = d.c.name;
    let words = elem_words(&d.c.tw, &d.c.prime) + 4;
    let d = Arc::new(d);
    let dd = d.clone();
    out.push(identities(format!("sw.params/{}", name), 5, move |t, o| sw_params(&dd, t.below(5), o)));
    let dd = d.clone();
    out.push(Rel::new(format!("sw.cofactor_order/{}", name), witnesses(tier, cost), words, move |t, o| sw_cofactor(&dd, t, o)).shrink_iters(64));
    let dd = d.clone();
    out.push(Rel::new(format!("sw.coeff_helpers/{}", name), tier.pick(64, 512), words, move |t, o| {
        coeff_helpers(&dd.c, &dd.a, Some(&dd.b), dd.mul_by_a, Some(dd.add_b), t, o)
    }));
}

pub fn sw_curve<P: SWCurveConfig>(out: &mut Vec<Rel>, name: &'static str, tier: Tier, cost: u32)
where
    P::BaseField: OracleRepr,
    P::ScalarField: OracleRepr,
{
    sw_rels(out, sw_data::<P>(name), tier, cost);
}

// ------------------------------------------------------------------------------------------------
// twisted Edwards (+ Montgomery form)
// ------------------------------------------------------------------------------------------------

pub struct TeData<F: Field> {
    pub c: Common,
    pub a: F,
    pub d: F,
    pub g: Te<F>,
    pub mul_by_a: fn(F) -> F,
    pub mont_a: F,
    pub mont_b: F,
}

fn show_te<F: Field + OracleRepr>(tw: &Tower, p: &Te<F>) -> String {
    format!("({}, {})", show_f(tw, &p.0), show_f(tw, &p.1))
}

pub fn te_point<F: Field + OracleRepr>(t: &mut Tape<'_>, a: &F, d: &F, c: &Common) -> Te<F> {
    let (tw, prime) = (&c.tw, &c.prime);
    if !c.sqrt_safe || t.chance(1, 32) {
        return te_identity();
    }
    let mut y = F::from_o(&rand_elem(t, tw, prime));
    let flip = t.bool();
    for _ in 0..512 {
        // x^2 = (1 - y^2) / (a - d y^2)
        let y2 = y.square();
        if let Some(den) = (*a - *d * y2).inverse() {
            let x2 = (F::ONE - y2) * den;
            if let Some(x) = x2.sqrt() {
                if x.square() == x2 {
                    return Te(if flip { -x } else { x }, y);
                }
            }
        }
        y += F::ONE;
    }
    te_identity()
}

fn te_params<F: Field + OracleRepr>(d: &TeData<F>, i: u64, o: &mut Obs) -> R {
    let c = &d.c;
    o.nt(true);
    match i {
        0 => {
            o.show(|| format!("{}: {} x^2 + y^2 = 1 + {} x^2 y^2, generator {}", c.name, show_f(&c.tw, &d.a), show_f(&c.tw, &d.d), show_te(&c.tw, &d.g)));
            check(!d.a.is_zero() && !d.d.is_zero() && d.a != d.d, "curve.singular", || "a*d*(a-d) = 0".into())?;
            check(d.g != te_identity(), "GENERATOR.identity", || "GENERATOR is the neutral element".into())?;
            check(te_on_curve(&d.a, &d.d, &d.g), "GENERATOR.on-curve", || format!("GENERATOR {} does not satisfy the curve equation", show_te(&c.tw, &d.g)))
        },
        1 => {
            o.show(|| format!("{}: r*G = O for r = {}", c.name, hx(&c.r)));
            match te_mul(&d.a, &d.d, &d.g, &c.r) {
                Some(rg) => check(rg == te_identity(), "GENERATOR.order", || format!("r*G = {} expected (0, 1)", show_te(&c.tw, &rg))),
                None => failure("GENERATOR.order.exceptional", "the affine addition law hit an exceptional case on multiples of G: G is not in an odd-order subgroup".into()),
            }
        },
        _ => common_identity(c, i - 2, o),
    }
}

fn te_cofactor<F: Field + OracleRepr>(d: &TeData<F>, t: &mut Tape<'_>, o: &mut Obs) -> R {
    let c = &d.c;
    let p = te_point(t, &d.a, &d.d, c);
    o.class_if(!c.sqrt_safe, "sqrt-precomp-inconsistent:no-witness");
    o.show(|| format!("{}: P = {}", c.name, show_te(&c.tw, &p)));
    check(te_on_curve(&d.a, &d.d, &p), "generator.off-curve", || "harness bug: generated point off the curve".into())?;
    let hp = match te_mul(&d.a, &d.d, &p, &c.h) {
        Some(x) => x,
        None => {
            o.class("exceptional-addition");
            return Ok(());
        },
    };
    o.nt(p != te_identity());
    o.class_if(hp == te_identity() && p != te_identity(), "h*P=O");
    match te_mul(&d.a, &d.d, &hp, &c.r) {
        Some(rhp) => check(rhp == te_identity(), "cofactor.order", || format!("r*(h*P) = {} != O for the curve point P = {}", show_te(&c.tw, &rhp), show_te(&c.tw, &p))),
        None => failure("cofactor.order.exceptional", format!("exceptional addition on multiples of h*P, P = {}: h*P is not of odd order", show_te(&c.tw, &p))),
    }
}

/// "the Montgomery curve that is birationally equivalent to this curve": B y^2 = x^3 + A x^2 + x is birationally
/// equivalent (over the base field) to a' x^2 + y^2 = 1 + d' x^2 y^2 with a' = (A+2)/B, d' = (A-2)/B, and
/// (a', d') describes the same curve as (a, d) when (a', d') = (s a, s d) or (s d, s a) for a non-zero square s.
fn te_montgomery<F: Field + OracleRepr>(d: &TeData<F>, i: u64, o: &mut Obs) -> R {
    let c = &d.c;
    let two = F::from(2u64);
    o.nt(true);
    match i {
        0 => {
            o.show(|| format!("{}: Montgomery form {} y^2 = x^3 + {} x^2 + x is non-singular", c.name, show_f(&c.tw, &d.mont_b), show_f(&c.tw, &d.mont_a)));
            check(!d.mont_b.is_zero() && d.mont_a.square() != F::from(4u64), "montgomery.singular", || "B (A^2 - 4) = 0".into())
        },
        _ => {
            let binv = match d.mont_b.inverse() {
                Some(x) => x,
                None => return failure("montgomery.singular", "B = 0".into()),
            };
            let a1 = (d.mont_a + two) * binv;
            let d1 = (d.mont_a - two) * binv;
            let exact = a1 == d.a && d1 == d.d;
            o.class(if exact { "montgomery-exact-standard-map" } else { "montgomery-scaled-or-swapped" });
            o.show(|| format!("{}: (A+2)/B = {}, (A-2)/B = {}; a = {}, d = {}", c.name, show_f(&c.tw, &a1), show_f(&c.tw, &d1), show_f(&c.tw, &d.a), show_f(&c.tw, &d.d)));
            let is_sq = |s: &F| c.tw.is_square(&s.to_o()) && !s.is_zero();
            let s1 = a1 * d.a.inverse().unwrap();
            let direct = s1 * d.d == d1 && is_sq(&s1);
            let s2 = a1 * d.d.inverse().unwrap();
            let swapped = s2 * d.a == d1 && is_sq(&s2);
            check(direct || swapped, "montgomery.birational", || {
                format!("Montgomery curve (A, B) is not birationally equivalent over the base field to the Edwards curve (a, d): (A+2)/B = {}, (A-2)/B = {}", show_f(&c.tw, &a1), show_f(&c.tw, &d1))
            })
        },
    }
}

pub fn te_curve<P: TECurveConfig>(out: &mut Vec<Rel>, name: &'static str, tier: Tier, cost: u32)
where
    P::BaseField: OracleRepr,
    P::ScalarField: OracleRepr,
{
    let d = TeData {
        c: common::<P>(name),
        a: <P as TECurveConfig>::COEFF_A,
        d: P::COEFF_D,
        g: te_from_affine::<P>(&P::GENERATOR),
        mul_by_a: P::mul_by_a,
        mont_a: <P::MontCurveConfig as MontCurveConfig>::COEFF_A,
        mont_b: <P::MontCurveConfig as MontCurveConfig>::COEFF_B,
    };
    te_rels(out, d, tier, cost);
}

fn te_rels<F: Field + OracleRepr>(out: &mut Vec<Rel>, d: TeData<F>, tier: Tier, cost: u32) {
    let name = d.c.name;
    let words = elem_words(&d.c.tw, &d.c.prime) + 4;
    let d = Arc::new(d);
    let dd = d.clone();
    out.push(identities(format!("te.params/{}", name), 5, move |t, o| te_params(&dd, t.below(5), o)));
    let dd = d.clone();
    out.push(identities(format!("te.montgomery/{}", name), 2, move |t, o| te_montgomery(&dd, t.below(2), o)));
    let dd = d.clone();
    out.push(Rel::new(format!("te.cofactor_order/{}", name), witnesses(tier, cost), words, move |t, o| te_cofactor(&dd, t, o)).shrink_iters(64));
    let dd = d.clone();
    out.push(Rel::new(format!("te.coeff_helpers/{}", name), tier.pick(64, 512), words, move |t, o| coeff_helpers(&dd.c, &dd.a, None, dd.mul_by_a, None, t, o)));
}

/// a configuration that implements both models (bandersnatch, BLS12-377 G1): same j-invariant
pub fn sw_te_same_curve<P: SWCurveConfig + TECurveConfig>(out: &mut Vec<Rel>, name: &'static str)
where
    P::BaseField: OracleRepr,
{
    let tw = <P::BaseField as OracleRepr>::tower();
    out.push(identities(format!("model.sw_te_j_invariant/{}", name), 1, move |_t, o| {
        type Fb<P> = <P as CurveConfig>::BaseField;
        let (a, b) = (<P as SWCurveConfig>::COEFF_A, <P as SWCurveConfig>::COEFF_B);
        let (ea, ed) = (<P as TECurveConfig>::COEFF_A, <P as TECurveConfig>::COEFF_D);
        o.nt(true);
        // j(SW) = 1728 * 4a^3 / (4a^3 + 27 b^2);  j(TE) = 16 (a^2 + 14 a d + d^2)^3 / (a d (a - d)^4)
        let f = |n: u64| Fb::<P>::from(n);
        let a3 = a.square() * a * f(4);
        let jsw_num = f(1728) * a3;
        let jsw_den = a3 + b.square() * f(27);
        let jte_num = f(16) * (ea.square() + f(14) * ea * ed + ed.square()).pow([3u64]);
        let jte_den = ea * ed * (ea - ed).pow([4u64]);
        o.show(|| format!("{}: j(SW) = {}/{}, j(TE) = {}/{}", name, show_f(&tw, &jsw_num), show_f(&tw, &jsw_den), show_f(&tw, &jte_num), show_f(&tw, &jte_den)));
        check(!jsw_den.is_zero() && !jte_den.is_zero(), "j.singular", || "singular model".into())?;
        check(jsw_num * jte_den == jte_num * jsw_den, "j-invariant", || "the short Weierstrass and twisted Edwards models of the same configuration have different j-invariants".into())
    }));
}

// ------------------------------------------------------------------------------------------------
// GLV
// ------------------------------------------------------------------------------------------------

pub struct GlvData<F: Field> {
    pub sw: SwData<F>,
    pub endo_coeffs: Vec<F>,
    pub lambda: BigUint,
    pub n: [BigInt; 4],
    pub endo_affine: Arc<dyn Fn(&Sw<F>) -> Sw<F> + Send + Sync>,
    pub endo_proj: Arc<dyn Fn(&Sw<F>) -> Sw<F> + Send + Sync>,
}

pub fn glv<P: GLVConfig>(out: &mut Vec<Rel>, name: &'static str, tier: Tier, cost: u32)
where
    P::BaseField: OracleRepr,
    P::ScalarField: OracleRepr,
{
    let lambda = match P::LAMBDA.to_o() {
        Elem::P(v) => v,
        _ => unreachable!(),
    };
    let n = P::SCALAR_DECOMP_COEFFS.map(|(pos, v)| sbig(!pos, &big(v.as_ref())));
    let d = GlvData {
        sw: sw_data::<P>(name),
        endo_coeffs: P::ENDO_COEFFS.to_vec(),
        lambda,
        n,
        endo_affine: Arc::new(|p| sw_from_affine::<P>(&P::endomorphism_affine(&sw_to_affine::<P>(p)))),
        endo_proj: Arc::new(|p| sw_from_proj::<P>(&P::endomorphism(&sw_to_affine::<P>(p).into_group()))),
    };
    glv_rels(out, d, tier, cost);
}

fn glv_params<F: Field + OracleRepr>(d: &GlvData<F>, i: u64, o: &mut Obs) -> R {
    let c = &d.sw.c;
    let r = &c.r;
    let l = &d.lambda;
    o.nt(true);
    match i {
        0 => {
            o.show(|| format!("{}: ENDO_COEFFS = {:?}", c.name, d.endo_coeffs.iter().map(|x| show_f(&c.tw, x)).collect::<Vec<_>>()));
            check(d.endo_coeffs.len() == 1, "ENDO_COEFFS.len", || format!("{} coefficients; the (beta x, y) endomorphism uses one", d.endo_coeffs.len()))?;
            let b = d.endo_coeffs[0].to_o();
            let b3 = c.tw.mul(&c.tw.mul(&b, &b), &b);
            check(b != c.tw.one() && b3 == c.tw.one(), "ENDO_COEFFS.cube-root", || format!("beta = {} is not a non-trivial cube root of unity (beta^3 = {})", show_elem(&c.tw, &b), show_elem(&c.tw, &b3)))
        },
        1 => {
            o.show(|| format!("{}: LAMBDA = {} satisfies X^2 + X + 1 = 0 mod r", c.name, hx(l)));
            let v = (l * l + l + 1u32) % r;
            check(v.is_zero() && !l.is_zero() && !l.is_one() && l < r, "LAMBDA.equation", || format!("lambda^2 + lambda + 1 mod r = {}", hx(&v)))
        },
        2 => {
            o.show(|| format!("{}: phi(G) = lambda * G", c.name));
            let want = sw_mul(&d.sw.a, &d.sw.g, l);
            let got = no_panic("endomorphism_affine", || (d.endo_affine)(&d.sw.g))?;
            check(got == want, "endomorphism_affine.generator", || format!("phi(G) = {} but lambda*G = {}", show_sw(&c.tw, &got), show_sw(&c.tw, &want)))?;
            let got = no_panic("endomorphism", || (d.endo_proj)(&d.sw.g))?;
            check(got == want, "endomorphism.generator", || format!("projective phi(G) = {} but lambda*G = {}", show_sw(&c.tw, &got), show_sw(&c.tw, &want)))
        },
        3 => {
            o.show(|| format!("{}: SCALAR_DECOMP_COEFFS = {:?}: both rows (n_i1, n_i2) satisfy n_i1 + lambda n_i2 = 0 mod r", c.name, d.n));
            let lam = BigInt::from(l.clone());
            for (row, (x, y)) in [(&d.n[0], &d.n[1]), (&d.n[2], &d.n[3])].iter().enumerate() {
                let v = smod(&(*x + &lam * *y), r);
                check(v.is_zero(), "SCALAR_DECOMP_COEFFS.lattice", || format!("row {}: n1 + lambda n2 mod r = {}", row + 1, hx(&v)))?;
            }
            Ok(())
        },
        _ => {
            let det = &d.n[0] * &d.n[3] - &d.n[1] * &d.n[2];
            o.show(|| format!("{}: det(SCALAR_DECOMP_COEFFS) = {}", c.name, det));
            check(det == BigInt::from(r.clone()), "SCALAR_DECOMP_COEFFS.det", || format!("determinant {} must equal the scalar field characteristic {}", det, r))
        },
    }
}

fn glv_endo<F: Field + OracleRepr>(d: &GlvData<F>, t: &mut Tape<'_>, o: &mut Obs) -> R {
    let c = &d.sw.c;
    let k = big_below(t, &c.r);
    let q = sw_mul(&d.sw.a, &d.sw.g, &k);
    o.nt(q != Sw::Inf);
    o.show(|| format!("{}: Q = {} * G", c.name, hx(&k)));
    let want = sw_mul(&d.sw.a, &q, &d.lambda);
    let got = no_panic("endomorphism_affine", || (d.endo_affine)(&q))?;
    check(got == want, "endomorphism_affine", || format!("phi(Q) = {} but lambda*Q = {} for Q = {}*G", show_sw(&c.tw, &got), show_sw(&c.tw, &want), hx(&k)))?;
    let got = no_panic("endomorphism", || (d.endo_proj)(&q))?;
    check(got == want, "endomorphism", || format!("projective phi(Q) = {} but lambda*Q = {} for Q = {}*G", show_sw(&c.tw, &got), show_sw(&c.tw, &want), hx(&k)))
}

fn glv_rels<F: Field + OracleRepr>(out: &mut Vec<Rel>, d: GlvData<F>, tier: Tier, cost: u32) {
    let name = d.sw.c.name;
    let words = d.sw.c.r.to_u64_digits().len() + 3;
    let d = Arc::new(d);
    let dd = d.clone();
    out.push(identities(format!("glv.params/{}", name), 5, move |t, o| glv_params(&dd, t.below(5), o)));
    let dd = d.clone();
    out.push(Rel::new(format!("glv.endomorphism/{}", name), witnesses(tier, cost), words, move |t, o| glv_endo(&dd, t, o)).shrink_iters(64));
}

// ------------------------------------------------------------------------------------------------
// SWU / WB
// ------------------------------------------------------------------------------------------------

pub fn swu<P: SWUConfig>(out: &mut Vec<Rel>, name: &'static str)
where
    P::BaseField: OracleRepr,
{
    let tw = <P::BaseField as OracleRepr>::tower();
    out.push(identities(format!("swu.params/{}", name), 3, move |t, o| {
        o.nt(true);
        match t.below(3) {
            2 => {
                // the exceptional case of the map (u = 0, or ZETA^2 u^4 + ZETA u^2 = 0) takes x1 = B / (ZETA * A) and
                // needs g(x1) to be a square (RFC 9380 section 6.6.2 criterion 4, [WB2019] section 4)
                let (a, b) = (P::COEFF_A, P::COEFF_B);
                let x1 = match (P::ZETA * a).inverse() {
                    Some(i) => b * i,
                    None => return check(false, "swu.zeta-a-zero", || "ZETA * A = 0".into()),
                };
                let g = (x1.square() + a) * x1 + b;
                let ge = g.to_o();
                o.show(|| format!("{}: g(B / (ZETA * A)) = {} is a square", name, show_elem(&tw, &ge)));
                check(tw.is_square(&ge), "ZETA.exceptional-case", || format!("g(B/(ZETA*A)) = {} is not a square: map_to_curve(0) has no image", show_elem(&tw, &ge)))
            },
            0 => {
                let z = P::ZETA.to_o();
                o.show(|| format!("{}: ZETA = {} is not a square", name, show_elem(&tw, &z)));
                check(!tw.is_zero(&z) && !tw.is_square(&z), "ZETA.square", || format!("ZETA = {} is a square in the base field", show_elem(&tw, &z)))
            },
            _ => {
                o.show(|| format!("{}: A = {}, B = {} are both non-zero", name, show_f(&tw, &P::COEFF_A), show_f(&tw, &P::COEFF_B)));
                check(!P::COEFF_A.is_zero() && !P::COEFF_B.is_zero(), "swu.ab-zero", || "simplified SWU needs A*B != 0".into())
            },
        }
    }));
}

pub struct WbData<F: Field> {
    pub name: &'static str,
    pub dom: SwData<F>,
    pub cod: SwData<F>,
    pub xn: Vec<F>,
    pub xd: Vec<F>,
    pub yn: Vec<F>,
    pub yd: Vec<F>,
}

fn horner<F: Field>(c: &[F], x: &F) -> F {
    let mut acc = F::ZERO;
    for k in c.iter().rev() {
        acc = acc * x + k;
    }
    acc
}

/// the rational map (x, y) -> (xn(x)/xd(x), y yn(x)/yd(x)); a pole is a kernel point
fn iso_apply<F: Field>(d: &WbData<F>, p: &Sw<F>) -> Sw<F> {
    match p {
        Sw::Inf => Sw::Inf,
        Sw::Aff(x, y) => {
            let (xd, yd) = (horner(&d.xd, x), horner(&d.yd, x));
            match (xd.inverse(), yd.inverse()) {
                (Some(xi), Some(yi)) => Sw::Aff(horner(&d.xn, x) * xi, *y * horner(&d.yn, x) * yi),
                _ => Sw::Inf,
            }
        },
    }
}

pub fn wb<P: WBConfig>(out: &mut Vec<Rel>, name: &'static str, tier: Tier, cost: u32)
where
    P::BaseField: OracleRepr,
    P::ScalarField: OracleRepr,
    <P::IsogenousCurve as CurveConfig>::ScalarField: OracleRepr,
{
    let m = &P::ISOGENY_MAP;
    let d = WbData {
        name,
        dom: sw_data::<P::IsogenousCurve>(name),
        cod: sw_data::<P>(name),
        xn: m.x_map_numerator.to_vec(),
        xd: m.x_map_denominator.to_vec(),
        yn: m.y_map_numerator.to_vec(),
        yd: m.y_map_denominator.to_vec(),
    };
    wb_rels(out, d, tier, cost);
}

fn wb_rels<F: Field + OracleRepr>(out: &mut Vec<Rel>, d: WbData<F>, tier: Tier, cost: u32) {
    let name = d.name;
    let words = 2 * (elem_words(&d.dom.c.tw, &d.dom.c.prime) + 4);
    let d = Arc::new(d);
    let dd = d.clone();
    out.push(identities(format!("wb.params/{}", name), 2, move |t, o| {
        let c = &dd.cod.c;
        o.nt(true);
        match t.below(2) {
            0 => {
                o.show(|| format!("{}: isogeny map of degrees x: {}/{}, y: {}/{}; leading coefficients non-zero", name, dd.xn.len(), dd.xd.len(), dd.yn.len(), dd.yd.len()));
                for (nm, v) in [("x_map_numerator", &dd.xn), ("x_map_denominator", &dd.xd), ("y_map_numerator", &dd.yn), ("y_map_denominator", &dd.yd)] {
                    check(v.last().map_or(false, |l| !l.is_zero()), "ISOGENY_MAP.degenerate", || format!("{} is empty or has a zero leading coefficient", nm))?;
                }
                Ok(())
            },
            _ => {
                let img = iso_apply(&dd, &dd.dom.g);
                o.show(|| format!("{}: the isogeny maps the generator of the isogenous curve to {}", name, show_sw(&c.tw, &img)));
                check(img != Sw::Inf, "ISOGENY_MAP.generator-in-kernel", || "generator of the isogenous curve is mapped to O".into())?;
                check(sw_on_curve(&dd.cod.a, &dd.cod.b, &img), "ISOGENY_MAP.generator-off-curve", || format!("image {} of the generator is not on the curve", show_sw(&c.tw, &img)))
            },
        }
    }));
    let dd = d.clone();
    out.push(
        Rel::new(format!("wb.isogeny/{}", name), witnesses(tier, cost), words, move |t, o| {
            let c = &dd.dom.c;
            let p = sw_point(t, &dd.dom.a, &dd.dom.b, c);
            let q = if t.chance(1, 8) { p } else { sw_point(t, &dd.dom.a, &dd.dom.b, c) };
            o.nt(p != Sw::Inf && q != Sw::Inf);
            o.class_if(p == q, "doubling");
            o.show(|| format!("{}: P = {} Q = {}", name, show_sw(&c.tw, &p), show_sw(&c.tw, &q)));
            let (ip, iq) = (iso_apply(&dd, &p), iso_apply(&dd, &q));
            o.class_if((ip == Sw::Inf && p != Sw::Inf) || (iq == Sw::Inf && q != Sw::Inf), "kernel-point");
            check(sw_on_curve(&dd.cod.a, &dd.cod.b, &ip), "ISOGENY_MAP.off-curve", || format!("image {} of P = {} is not on the curve", show_sw(&c.tw, &ip), show_sw(&c.tw, &p)))?;
            check(sw_on_curve(&dd.cod.a, &dd.cod.b, &iq), "ISOGENY_MAP.off-curve", || format!("image {} of Q = {} is not on the curve", show_sw(&c.tw, &iq), show_sw(&c.tw, &q)))?;
            let s = sw_add(&dd.dom.a, &p, &q);
            let is = iso_apply(&dd, &s);
            let want = sw_add(&dd.cod.a, &ip, &iq);
            check(is == want, "ISOGENY_MAP.additive", || format!("iso(P+Q) = {} but iso(P)+iso(Q) = {}", show_sw(&c.tw, &is), show_sw(&c.tw, &want)))
        })
        .shrink_iters(64),
    );
}

// ------------------------------------------------------------------------------------------------
// Elligator2
// ------------------------------------------------------------------------------------------------

pub fn elligator2<P: Elligator2Config>(out: &mut Vec<Rel>, name: &'static str)
where
    P::BaseField: OracleRepr,
{
    let tw = <P::BaseField as OracleRepr>::tower();
    out.push(identities(format!("elligator2.params/{}", name), 4, move |t, o| {
        type Fb<P> = <P as CurveConfig>::BaseField;
        let (ma, mb) = (<P as MontCurveConfig>::COEFF_A, <P as MontCurveConfig>::COEFF_B);
        o.nt(true);
        match t.below(4) {
            0 => {
                let z = P::Z.to_o();
                o.show(|| format!("{}: Z = {} is a non-square (of lowest absolute value for prime fields)", name, show_elem(&tw, &z)));
                check(!tw.is_zero(&z) && !tw.is_square(&z), "Z.square", || format!("Z = {} is a square", show_elem(&tw, &z)))?;
                if let (Tower::Prime { p, .. }, Elem::P(zv)) = (&tw, &z) {
                    // RFC 9380 find_z_ell2: candidates 1, -1, 2, -2, ... ; the first non-square
                    let mut k = 1u32;
                    loop {
                        let pos = BigUint::from(k);
                        let neg = p - &pos;
                        if !is_square(&pos, p) {
                            return check(*zv == pos, "Z.not-minimal", || format!("Z = {} but {} is a non-square of lower or equal absolute value that comes first", hx(zv), k));
                        }
                        if !is_square(&neg, p) {
                            return check(*zv == neg, "Z.not-minimal", || format!("Z = {} but -{} is a non-square of lower absolute value", hx(zv), k));
                        }
                        k += 1;
                        if k > 1000 {
                            return failure("Z.search", "no non-square below 1000".into());
                        }
                    }
                }
                Ok(())
            },
            1 => {
                let v = P::ONE_OVER_COEFF_B_SQUARE * mb.square();
                o.show(|| format!("{}: ONE_OVER_COEFF_B_SQUARE * B^2 = {}", name, show_f(&tw, &v)));
                check(v == Fb::<P>::ONE, "ONE_OVER_COEFF_B_SQUARE", || format!("ONE_OVER_COEFF_B_SQUARE * B^2 = {} expected 1", show_f(&tw, &v)))
            },
            2 => {
                let v = P::COEFF_A_OVER_COEFF_B * mb;
                o.show(|| format!("{}: COEFF_A_OVER_COEFF_B * B = {} (A = {})", name, show_f(&tw, &v), show_f(&tw, &ma)));
                check(v == ma && !mb.is_zero(), "COEFF_A_OVER_COEFF_B", || format!("COEFF_A_OVER_COEFF_B * B = {} expected A = {}", show_f(&tw, &v), show_f(&tw, &ma)))
            },
            _ => {
                // the map ends with (s, t) -> (s/t, (s-1)/(s+1)), which lands on the Edwards curve with a = (A+2)/B, d = (A-2)/B
                let two = Fb::<P>::from(2u64);
                let (a, d) = (<P as TECurveConfig>::COEFF_A, <P as TECurveConfig>::COEFF_D);
                o.show(|| format!("{}: a*B = A+2 and d*B = A-2", name));
                check(a * mb == ma + two && d * mb == ma - two, "elligator2.montgomery-map", || {
                    "the rational map of RFC 9380 appendix D used by Elligator2Map needs a = (A+2)/B and d = (A-2)/B".into()
                })
            },
        }
    }));
}
