//! Field configurations: prime fields (Montgomery constants, derived constants, generator and roots of
//! unity) and extension towers (non-residues, Frobenius tables, `mul_*_by_nonresidue*` overrides,
//! square-root precomputation).  Generic code only *extracts* the constants into oracle values
//! (`BigUint` / `vh_core::tower::Elem`, decoded through raw Montgomery limbs); every identity is then
//! recomputed by non-generic code with `num-bigint` / schoolbook tower arithmetic.
use crate::util::*;
use ark_ff::fields::{CubicExtConfig, CubicExtField, Fp, MontBackend, MontConfig, QuadExtConfig, QuadExtField};
use ark_ff::{FftField, Field, PrimeField, SqrtPrecomputation};
use num_bigint::BigUint;
use num_traits::{One, Zero};
use std::sync::Arc;
use vh_core::engine::{no_panic, Obs, Rel, Tape, Tier, R};
use vh_core::modint::*;
use vh_core::tower::{edge_elem, Elem, OracleRepr, Tower};

// ------------------------------------------------------------------------------------------------
// square-root precomputation (any field)
// ------------------------------------------------------------------------------------------------

#[derive(Clone, Debug)]
pub enum SqrtD {
    None,
    TonelliShanks { s: u32, z: Elem, tm1d2: BigUint },
    Case3Mod4 { e: BigUint },
    Unknown,
}

pub fn sqrt_data<F: Field + OracleRepr>() -> SqrtD {
    match F::SQRT_PRECOMP {
        None => SqrtD::None,
        Some(SqrtPrecomputation::TonelliShanks { two_adicity, quadratic_nonresidue_to_trace, trace_of_modulus_minus_one_div_two }) => {
            SqrtD::TonelliShanks { s: two_adicity, z: quadratic_nonresidue_to_trace.to_o(), tm1d2: big(trace_of_modulus_minus_one_div_two) }
        },
        Some(SqrtPrecomputation::Case3Mod4 { modulus_plus_one_div_four }) => SqrtD::Case3Mod4 { e: big(modulus_plus_one_div_four) },
        #[allow(unreachable_patterns)]
        Some(_) => SqrtD::Unknown,
    }
}

/// SQRT_PRECOMP of a field with `q` elements: Tonelli–Shanks needs q-1 = 2^s t (t odd), (t-1)/2 and an
/// element of order exactly 2^s ("t-th power of a quadratic non-residue"); Case3Mod4 needs q = 3 mod 4 and (q+1)/4.
pub fn check_sqrt(tw: &Tower, sq: &SqrtD, o: &mut Obs) -> R {
    let q = tw.order();
    let qm1 = &q - 1u32;
    match sq {
        SqrtD::None => {
            o.class("sqrt-precomp-none");
            Ok(())
        },
        SqrtD::Unknown => failure("sqrt.unknown-variant", "unknown SqrtPrecomputation variant".into()),
        SqrtD::Case3Mod4 { e } => {
            o.class("sqrt-case3mod4");
            check((&q % 4u32) == BigUint::from(3u32), "sqrt.case3mod4.modulus", || format!("Case3Mod4 used but q mod 4 = {}", &q % 4u32))?;
            let want = (&q + 1u32) >> 2;
            check(*e == want, "sqrt.case3mod4.exponent", || format!("modulus_plus_one_div_four = {} expected (q+1)/4 = {}", hx(e), hx(&want)))
        },
        SqrtD::TonelliShanks { s, z, tm1d2 } => {
            o.class("sqrt-tonelli-shanks");
            let s_want = qm1.trailing_zeros().unwrap() as u32;
            check(*s == s_want, "sqrt.two_adicity", || format!("two_adicity = {} expected v2(q-1) = {}", s, s_want))?;
            let t = &qm1 >> (s_want as usize);
            let want = (&t - 1u32) >> 1;
            check(*tm1d2 == want, "sqrt.trace_minus_one_div_two", || format!("trace_of_modulus_minus_one_div_two = {} expected {}", hx(tm1d2), hx(&want)))?;
            // order exactly 2^s  <=>  z^(2^(s-1)) = -1
            let mut x = z.clone();
            for _ in 0..s_want - 1 {
                x = tw.mul(&x, &x);
            }
            check(x == minus_one(tw), "sqrt.nonresidue_to_trace.order", || {
                format!("quadratic_nonresidue_to_trace {} does not have order exactly 2^{} (z^(2^(s-1)) = {})", show_elem(tw, z), s_want, show_elem(tw, &x))
            })
        },
    }
}

// ------------------------------------------------------------------------------------------------
// prime fields
// ------------------------------------------------------------------------------------------------

pub struct FpData {
    pub name: &'static str,
    pub n: usize,
    pub p: BigUint,
    pub r: BigUint,
    pub r2: BigUint,
    pub inv: u64,
    pub bits: u32,
    pub two_adicity_fft: u32,
    pub trace: BigUint,
    pub trace_m1d2: BigUint,
    pub pm1d2: BigUint,
    pub p1d4: Option<BigUint>,
    pub spare_bit: bool,
    pub gen_cfg: BigUint,
    pub gen_cfg_canon: bool,
    pub gen_fft: BigUint,
    pub root_cfg: BigUint,
    pub root_fft: BigUint,
    pub small_base: Option<u32>,
    pub small_adic: Option<u32>,
    pub large_root: Option<BigUint>,
    pub sqrt: SqrtD,
    pub one_raw: Vec<u64>,
    pub zero_raw: Vec<u64>,
    pub characteristic: BigUint,
    pub ext_degree: u64,
    pub top_limb: u64,
}

type F<T, const N: usize> = Fp<MontBackend<T, N>, N>;

fn fp_data<T: MontConfig<N>, const N: usize>(name: &'static str) -> FpData {
    let dec = |x: &F<T, N>| -> BigUint {
        match x.to_o() {
            Elem::P(v) => v,
            _ => unreachable!(),
        }
    };
    let g = T::GENERATOR;
    FpData {
        name,
        n: N,
        p: big(&T::MODULUS.0),
        r: big(&T::R.0),
        r2: big(&T::R2.0),
        inv: T::INV,
        bits: <F<T, N> as PrimeField>::MODULUS_BIT_SIZE,
        two_adicity_fft: <F<T, N> as FftField>::TWO_ADICITY,
        trace: big(&<F<T, N> as PrimeField>::TRACE.0),
        trace_m1d2: big(&<F<T, N> as PrimeField>::TRACE_MINUS_ONE_DIV_TWO.0),
        pm1d2: big(&<F<T, N> as PrimeField>::MODULUS_MINUS_ONE_DIV_TWO.0),
        p1d4: T::MODULUS_PLUS_ONE_DIV_FOUR.map(|b| big(&b.0)),
        spare_bit: T::MODULUS_HAS_SPARE_BIT,
        gen_cfg: dec(&g),
        gen_cfg_canon: g.canonical(),
        gen_fft: dec(&<F<T, N> as FftField>::GENERATOR),
        root_cfg: dec(&T::TWO_ADIC_ROOT_OF_UNITY),
        root_fft: dec(&<F<T, N> as FftField>::TWO_ADIC_ROOT_OF_UNITY),
        small_base: <F<T, N> as FftField>::SMALL_SUBGROUP_BASE,
        small_adic: <F<T, N> as FftField>::SMALL_SUBGROUP_BASE_ADICITY,
        large_root: <F<T, N> as FftField>::LARGE_SUBGROUP_ROOT_OF_UNITY.map(|x| dec(&x)),
        sqrt: sqrt_data::<F<T, N>>(),
        one_raw: (<F<T, N> as Field>::ONE.0).0.to_vec(),
        zero_raw: (<F<T, N> as ark_ff::AdditiveGroup>::ZERO.0).0.to_vec(),
        characteristic: big(<F<T, N> as Field>::characteristic()),
        ext_degree: <F<T, N> as Field>::extension_degree(),
        top_limb: T::MODULUS.0[N - 1],
    }
}

fn fp_montgomery(d: &FpData, i: u64, o: &mut Obs) -> R {
    let p = &d.p;
    o.nt(true);
    match i {
        0 => {
            o.show(|| format!("{}: p = {} is prime (Miller-Rabin, 25 bases)", d.name, hx(p)));
            check(is_probable_prime(p) && p.bit(0), "modulus.prime", || format!("modulus {} is not an odd prime", hx(p)))
        },
        1 => {
            let want = pow2(64 * d.n) % p;
            o.show(|| format!("{}: R = 2^{} mod p = {}", d.name, 64 * d.n, hx(&want)));
            check(d.r == want, "R", || format!("R = {} expected {}", hx(&d.r), hx(&want)))
        },
        2 => {
            let rr = pow2(64 * d.n) % p;
            let want = (&rr * &rr) % p;
            o.show(|| format!("{}: R2 = R^2 mod p = {}", d.name, hx(&want)));
            check(d.r2 == want, "R2", || format!("R2 = {} expected {}", hx(&d.r2), hx(&want)))
        },
        3 => {
            let p0 = p.to_u64_digits()[0];
            o.show(|| format!("{}: INV = {:#x}, INV * p mod 2^64 = {:#x}", d.name, d.inv, d.inv.wrapping_mul(p0)));
            check(d.inv.wrapping_mul(p0) == u64::MAX, "INV", || format!("INV = {:#x}: INV * p != -1 mod 2^64", d.inv))
        },
        4 => {
            o.show(|| format!("{}: MODULUS_BIT_SIZE = {}", d.name, d.bits));
            check(d.bits as u64 == p.bits(), "MODULUS_BIT_SIZE", || format!("MODULUS_BIT_SIZE = {} expected {}", d.bits, p.bits()))
        },
        5 => {
            let want = d.top_limb >> 63 == 0;
            o.show(|| format!("{}: MODULUS_HAS_SPARE_BIT = {}", d.name, d.spare_bit));
            check(d.spare_bit == want, "MODULUS_HAS_SPARE_BIT", || format!("MODULUS_HAS_SPARE_BIT = {} but top limb is {:#x}", d.spare_bit, d.top_limb))
        },
        _ => {
            o.show(|| format!("{}: ONE = R, ZERO = 0, characteristic = p, extension_degree = 1", d.name));
            check(big(&d.one_raw) == pow2(64 * d.n) % p, "ONE", || format!("raw limbs of ONE {:x?} are not R", d.one_raw))?;
            check(d.zero_raw.iter().all(|l| *l == 0), "ZERO", || format!("raw limbs of ZERO {:x?}", d.zero_raw))?;
            check(d.characteristic == *p, "characteristic", || format!("characteristic() = {}", hx(&d.characteristic)))?;
            check(d.ext_degree == 1, "extension_degree", || format!("extension_degree() = {}", d.ext_degree))
        },
    }
}

fn fp_derived(d: &FpData, i: u64, o: &mut Obs) -> R {
    let p = &d.p;
    let pm1 = p - 1u32;
    let s = pm1.trailing_zeros().unwrap() as u32;
    let t = &pm1 >> (s as usize);
    o.nt(true);
    match i {
        0 => {
            o.show(|| format!("{}: p-1 = 2^{} * {}", d.name, s, hx(&t)));
            check(d.two_adicity_fft == s, "TWO_ADICITY", || format!("TWO_ADICITY = {} expected {}", d.two_adicity_fft, s))?;
            check(d.trace == t, "TRACE", || format!("TRACE = {} expected {}", hx(&d.trace), hx(&t)))
        },
        1 => {
            let want = (&t - 1u32) >> 1;
            o.show(|| format!("{}: TRACE_MINUS_ONE_DIV_TWO = {}", d.name, hx(&want)));
            check(d.trace_m1d2 == want, "TRACE_MINUS_ONE_DIV_TWO", || format!("got {} expected {}", hx(&d.trace_m1d2), hx(&want)))
        },
        2 => {
            let want = &pm1 >> 1;
            o.show(|| format!("{}: MODULUS_MINUS_ONE_DIV_TWO = {}", d.name, hx(&want)));
            check(d.pm1d2 == want, "MODULUS_MINUS_ONE_DIV_TWO", || format!("got {} expected {}", hx(&d.pm1d2), hx(&want)))
        },
        3 => {
            let three_mod_four = (p % 4u32) == BigUint::from(3u32);
            o.show(|| format!("{}: p mod 4 = {}, MODULUS_PLUS_ONE_DIV_FOUR = {:?}", d.name, p % 4u32, d.p1d4.as_ref().map(hx)));
            match (&d.p1d4, three_mod_four) {
                (Some(v), true) => {
                    let want = (p + 1u32) >> 2;
                    check(*v == want, "MODULUS_PLUS_ONE_DIV_FOUR", || format!("got {} expected {}", hx(v), hx(&want)))
                },
                (None, false) => {
                    o.class("p=1mod4");
                    Ok(())
                },
                (Some(_), false) => failure("MODULUS_PLUS_ONE_DIV_FOUR.some", "defined although p = 1 mod 4".into()),
                (None, true) => failure("MODULUS_PLUS_ONE_DIV_FOUR.none", "None although p = 3 mod 4".into()),
            }
        },
        _ => {
            o.show(|| format!("{}: SQRT_PRECOMP = {:?}", d.name, d.sqrt));
            let tw = Tower::prime(&to_limbs(p, d.n));
            check(!matches!(d.sqrt, SqrtD::None), "sqrt.none", || "prime field without SQRT_PRECOMP".into())?;
            check_sqrt(&tw, &d.sqrt, o)
        },
    }
}

fn fp_generator(d: &FpData, i: u64, bound: u32, o: &mut Obs) -> R {
    let p = &d.p;
    let pm1 = p - 1u32;
    let s = pm1.trailing_zeros().unwrap() as usize;
    let t = &pm1 >> s;
    let g = &d.gen_cfg;
    let one = BigUint::one();
    // the two small-subgroup identities are vacuous for fields that declare none
    // identity 1 is an observation, not a check
    o.nt(i != 1 && (i < 4 || d.small_base.is_some()));
    match i {
        0 => {
            o.show(|| format!("{}: GENERATOR = {} is a quadratic non-residue", d.name, hx(g)));
            check(d.gen_cfg_canon && !g.is_zero(), "GENERATOR.canonical", || "GENERATOR is zero or not canonical".into())?;
            check(d.gen_fft == *g, "GENERATOR.fft", || format!("FftField::GENERATOR = {} differs from MontConfig::GENERATOR = {}", hx(&d.gen_fft), hx(g)))?;
            let e = powm(g, &(&pm1 >> 1), p);
            check(e == pm1, "GENERATOR.qnr", || format!("GENERATOR^((p-1)/2) = {} expected -1", hx(&e)))
        },
        1 => {
            // OBSERVATION ONLY (never a failure): the MontConfig doc comment calls GENERATOR "an element having
            // multiplicative order MODULUS - 1", but property C16 only states that it is a quadratic non-residue.
            // g^((p-1)/l) != 1 is evaluated for every prime l | p-1 that trial division finds and reported as a class.
            let (fs, rest) = partial_factor(&pm1, bound);
            let full = rest.is_one() || is_probable_prime(&rest);
            let mut ls: Vec<BigUint> = fs.iter().filter(|l| **l != 2).map(|l| BigUint::from(*l)).collect();
            if full && !rest.is_one() {
                ls.push(rest.clone());
            }
            let bad: Vec<String> = ls.iter().filter(|l| powm(g, &(&pm1 / *l), p) == one).map(|l| l.to_string()).collect();
            o.evals(ls.len() as u64);
            o.class(if !bad.is_empty() {
                "observation:generator-order-is-a-proper-divisor-of-p-1"
            } else if full {
                "observation:generator-order-p-1-fully-verified"
            } else {
                "observation:generator-order-p-1-consistent-with-small-factors"
            });
            o.show(|| {
                format!(
                    "{}: [observation] p-1 has small prime factors {:?}, cofactor {} ({}); GENERATOR^((p-1)/l) = 1 for l in {:?}",
                    d.name,
                    fs,
                    hx(&rest),
                    if full { "prime: factorisation complete" } else { "not factored" },
                    bad
                )
            });
            Ok(())
        },
        2 => {
            let want = powm(g, &t, p);
            o.show(|| format!("{}: TWO_ADIC_ROOT_OF_UNITY = GENERATOR^TRACE = {}", d.name, hx(&want)));
            check(d.root_cfg == want, "TWO_ADIC_ROOT_OF_UNITY", || format!("got {} expected {}", hx(&d.root_cfg), hx(&want)))?;
            check(d.root_fft == want, "TWO_ADIC_ROOT_OF_UNITY.fft", || format!("FftField constant {} expected {}", hx(&d.root_fft), hx(&want)))
        },
        3 => {
            o.show(|| format!("{}: TWO_ADIC_ROOT_OF_UNITY has order exactly 2^{}", d.name, s));
            let half = powm(&d.root_cfg, &pow2(s - 1), p);
            check(half == pm1, "TWO_ADIC_ROOT_OF_UNITY.order", || format!("root^(2^{}) = {} expected -1", s - 1, hx(&half)))
        },
        4 => {
            o.show(|| format!("{}: SMALL_SUBGROUP_BASE = {:?}, ADICITY = {:?}, LARGE_SUBGROUP_ROOT_OF_UNITY = {:?}", d.name, d.small_base, d.small_adic, d.large_root.as_ref().map(hx)));
            match (d.small_base, d.small_adic, &d.large_root) {
                (None, None, None) => {
                    o.class("no-small-subgroup");
                    Ok(())
                },
                (Some(b), Some(k), Some(w)) => {
                    check(b >= 2, "SMALL_SUBGROUP_BASE", || format!("base {}", b))?;
                    let bk = BigUint::from(b).pow(k);
                    check((&pm1 % &bk).is_zero(), "SMALL_SUBGROUP.divides", || format!("{}^{} does not divide p-1: no subgroup of that size", b, k))?;
                    check(b % 2 == 1, "SMALL_SUBGROUP_BASE.odd", || format!("even base {} makes the order 2^s*b^k ambiguous", b))?;
                    let n = pow2(s) * &bk;
                    let want = powm(g, &(&pm1 / &n), p);
                    check(*w == want, "LARGE_SUBGROUP_ROOT_OF_UNITY", || format!("got {} expected GENERATOR^((p-1)/(2^{}*{}^{})) = {}", hx(w), s, b, k, hx(&want)))
                },
                _ => failure("SMALL_SUBGROUP.inconsistent", format!("base {:?} adicity {:?} root {:?}", d.small_base, d.small_adic, d.large_root.as_ref().map(hx))),
            }
        },
        _ => match (d.small_base, d.small_adic, &d.large_root) {
            (Some(b), Some(k), Some(w)) => {
                let n = pow2(s) * BigUint::from(b).pow(k);
                o.show(|| format!("{}: LARGE_SUBGROUP_ROOT_OF_UNITY has order exactly 2^{} * {}^{}", d.name, s, b, k));
                check(powm(w, &n, p) == one, "LARGE_SUBGROUP_ROOT_OF_UNITY.order", || "root^(2^s b^k) != 1".into())?;
                let (fs, rest) = partial_factor(&BigUint::from(b), 1 << 16);
                let mut ls: Vec<BigUint> = fs.iter().map(|l| BigUint::from(*l)).collect();
                if !rest.is_one() {
                    ls.push(rest);
                }
                ls.push(BigUint::from(2u32));
                for l in ls {
                    check(powm(w, &(&n / &l), p) != one, "LARGE_SUBGROUP_ROOT_OF_UNITY.order", || format!("root^(n/{}) = 1: order is smaller than 2^s b^k", l))?;
                }
                Ok(())
            },
            _ => {
                o.class("no-small-subgroup");
                o.show(|| format!("{}: no small subgroup declared", d.name));
                Ok(())
            },
        },
    }
}

pub fn prime_field<T: MontConfig<N>, const N: usize>(out: &mut Vec<Rel>, name: &'static str, tier: Tier) {
    let d = Arc::new(fp_data::<T, N>(name));
    let bound: u32 = tier.pick(1 << 20, 1 << 24);
    let dd = d.clone();
    out.push(identities(format!("fp.montgomery/{}", name), 7, move |t, o| fp_montgomery(&dd, t.below(7), o)));
    let dd = d.clone();
    out.push(identities(format!("fp.derived/{}", name), 5, move |t, o| fp_derived(&dd, t.below(5), o)));
    let dd = d.clone();
    out.push(identities(format!("fp.generator/{}", name), 6, move |t, o| fp_generator(&dd, t.below(6), bound, o)));
}

// ------------------------------------------------------------------------------------------------
// extension fields
// ------------------------------------------------------------------------------------------------

pub struct ExtData {
    pub name: &'static str,
    /// 2 (quadratic) or 3 (cubic)
    pub k: usize,
    pub base: Tower,
    pub full: Tower,
    pub coeff_tw: Tower,
    pub nonres: Elem,
    pub declared_degree: usize,
    pub ext_degree_fn: u64,
    pub characteristic: BigUint,
    pub c1: Vec<Elem>,
    pub c2: Vec<Elem>,
    pub sqrt: SqrtD,
    /// documented "this *must* equal (0, 1)" / "(0, 1, 0)" (Fp4Config / Fp12Config)
    pub must_be_x: bool,
}

/// reads table entry `i` the way the Frobenius code does: `mul_base_field_by_frob_coeff(1, .., i)`
pub type FrobFn = Arc<dyn Fn(usize) -> Vec<Elem> + Send + Sync>;
/// (y, x) -> named results of every `mul_base_field_by_nonresidue*` helper
pub type NrFn = Arc<dyn Fn(&Elem, &Elem) -> Vec<(&'static str, Elem)> + Send + Sync>;

pub fn quad_ext<P: QuadExtConfig>(out: &mut Vec<Rel>, name: &'static str, tier: Tier, must_be_x: bool)
where
    P::BaseField: OracleRepr + FftField,
    P::FrobCoeff: OracleRepr,
{
    ext_fft::<QuadExtField<P>>(out, name);
    let d = ExtData {
        name,
        k: 2,
        base: <P::BaseField as OracleRepr>::tower(),
        full: <QuadExtField<P> as OracleRepr>::tower(),
        coeff_tw: <P::FrobCoeff as OracleRepr>::tower(),
        nonres: P::NONRESIDUE.to_o(),
        declared_degree: P::DEGREE_OVER_BASE_PRIME_FIELD,
        ext_degree_fn: <QuadExtField<P> as Field>::extension_degree(),
        characteristic: big(<QuadExtField<P> as Field>::characteristic()),
        c1: P::FROBENIUS_COEFF_C1.iter().map(|c| c.to_o()).collect(),
        c2: vec![],
        sqrt: sqrt_data::<QuadExtField<P>>(),
        must_be_x,
    };
    let frob: FrobFn = Arc::new(|i| {
        let mut one = <P::BaseField as Field>::ONE;
        P::mul_base_field_by_frob_coeff(&mut one, i);
        vec![one.to_o()]
    });
    let nr: NrFn = Arc::new(|y, x| {
        let (y, x) = (P::BaseField::from_o(y), P::BaseField::from_o(x));
        let mut a = y;
        P::mul_base_field_by_nonresidue_in_place(&mut a);
        let mut b = y;
        P::mul_base_field_by_nonresidue_and_add(&mut b, &x);
        let mut c = y;
        P::mul_base_field_by_nonresidue_plus_one_and_add(&mut c, &x);
        let mut e = y;
        P::sub_and_mul_base_field_by_nonresidue(&mut e, &x);
        vec![("in_place", a.to_o()), ("and_add", b.to_o()), ("plus_one_and_add", c.to_o()), ("sub_and_mul", e.to_o())]
    });
    ext_rels(out, d, frob, nr, tier);
}

pub fn cubic_ext<P: CubicExtConfig>(out: &mut Vec<Rel>, name: &'static str, tier: Tier)
where
    P::BaseField: OracleRepr + FftField,
    P::FrobCoeff: OracleRepr,
{
    ext_fft::<CubicExtField<P>>(out, name);
    let d = ExtData {
        name,
        k: 3,
        base: <P::BaseField as OracleRepr>::tower(),
        full: <CubicExtField<P> as OracleRepr>::tower(),
        coeff_tw: <P::FrobCoeff as OracleRepr>::tower(),
        nonres: P::NONRESIDUE.to_o(),
        declared_degree: P::DEGREE_OVER_BASE_PRIME_FIELD,
        ext_degree_fn: <CubicExtField<P> as Field>::extension_degree(),
        characteristic: big(<CubicExtField<P> as Field>::characteristic()),
        c1: P::FROBENIUS_COEFF_C1.iter().map(|c| c.to_o()).collect(),
        c2: P::FROBENIUS_COEFF_C2.iter().map(|c| c.to_o()).collect(),
        sqrt: sqrt_data::<CubicExtField<P>>(),
        must_be_x: false,
    };
    let frob: FrobFn = Arc::new(|i| {
        let mut one = <P::BaseField as Field>::ONE;
        let mut one2 = <P::BaseField as Field>::ONE;
        P::mul_base_field_by_frob_coeff(&mut one, &mut one2, i);
        vec![one.to_o(), one2.to_o()]
    });
    let nr: NrFn = Arc::new(|y, _x| {
        let y = P::BaseField::from_o(y);
        let mut a = y;
        P::mul_base_field_by_nonresidue_in_place(&mut a);
        let b = P::mul_base_field_by_nonresidue(y);
        vec![("in_place", a.to_o()), ("by_value", b.to_o())]
    });
    ext_rels(out, d, frob, nr, tier);
}

/// `FftField` constants of an extension level, read through the public trait.  The statement asks that the 2-adic and
/// the large-subgroup roots of unity "have exactly the stated orders"; for extension fields the stated orders are
/// 2^TWO_ADICITY and 2^TWO_ADICITY * SMALL_SUBGROUP_BASE^SMALL_SUBGROUP_BASE_ADICITY of *that* impl.  Orders are decided
/// by oracle exponentiation in the full tower (w^n = 1 and w^(n/l) != 1 for every prime l | n).  `get_root_of_unity(n)`
/// is read for every n = 2^i * b^j it is documented for: the value must have order exactly n.
/// (GENERATOR of an extension level is the embedded base-field generator - a square in every even-degree extension -
/// so the non-residue clause is only asserted for prime fields, in `fp.generator`.)
pub fn ext_fft<F: FftField + OracleRepr>(out: &mut Vec<Rel>, name: &'static str) {
    let tw = <F as OracleRepr>::tower();
    let s = F::TWO_ADICITY;
    let two_root = F::TWO_ADIC_ROOT_OF_UNITY.to_o();
    let small_base = F::SMALL_SUBGROUP_BASE;
    let small_adic = F::SMALL_SUBGROUP_BASE_ADICITY;
    let large = F::LARGE_SUBGROUP_ROOT_OF_UNITY.map(|x| x.to_o());
    // exact order test: w^n = 1 and w^(n/l) != 1 for the primes l | n (n = 2^i * b^j)
    fn has_order(tw: &Tower, w: &Elem, i: u32, b: u32, j: u32) -> Result<(), String> {
        let one = tw.one();
        let n = (BigUint::one() << i) * BigUint::from(b).pow(j);
        if tw.pow(w, &n) != one {
            return Err(format!("w^n != 1 for n = 2^{} * {}^{}", i, b, j));
        }
        let mut ls: Vec<u32> = Vec::new();
        if i > 0 {
            ls.push(2);
        }
        if j > 0 {
            for l in small_primes(b + 1) {
                if b % l == 0 && !ls.contains(&l) {
                    ls.push(l);
                }
            }
        }
        for l in ls {
            if tw.pow(w, &(&n / BigUint::from(l))) == one {
                return Err(format!("w^(n/{}) = 1: the order is a proper divisor of n = 2^{} * {}^{}", l, i, b, j));
            }
        }
        Ok(())
    }
    let get = Arc::new(|n: u64| F::get_root_of_unity(n).map(|x| x.to_o()));
    out.push(identities(format!("ext.fft/{}", name), 4, move |t, o| {
        let i = t.below(4);
        o.evals(1);
        match i {
            0 => {
                o.show(|| format!("{}: FftField::TWO_ADIC_ROOT_OF_UNITY = {} has order exactly 2^{}", name, show_elem(&tw, &two_root), s));
                o.nt(s > 0);
                check(s >= 1, "fft.TWO_ADICITY", || "TWO_ADICITY = 0 in a field of odd characteristic".into())?;
                match has_order(&tw, &two_root, s, 1, 0) {
                    Ok(()) => Ok(()),
                    Err(e) => failure("fft.TWO_ADIC_ROOT_OF_UNITY.order", e),
                }
            },
            1 => {
                o.show(|| format!("{}: FftField small subgroup: base {:?} adicity {:?} large root {:?}", name, small_base, small_adic, large.as_ref().map(|w| show_elem(&tw, w))));
                o.nt(large.is_some());
                let all = small_base.is_some() && small_adic.is_some() && large.is_some();
                let none = small_base.is_none() && small_adic.is_none() && large.is_none();
                check(all || none, "fft.small-subgroup.all-or-none", || format!("base {:?} adicity {:?} root set: {}", small_base, small_adic, large.is_some()))?;
                if let (Some(b), Some(k), Some(w)) = (small_base, small_adic, &large) {
                    o.class("has-small-subgroup");
                    check(b >= 2 && k >= 1, "fft.small-subgroup.trivial", || format!("base {} adicity {}", b, k))?;
                    if let Err(e) = has_order(&tw, w, s, b, k) {
                        return failure("fft.LARGE_SUBGROUP_ROOT_OF_UNITY.order", e);
                    }
                }
                Ok(())
            },
            2 => {
                // get_root_of_unity(2^i * b^j) for every documented n that fits in 64 bits
                let (b, k) = (small_base.unwrap_or(1), small_adic.unwrap_or(0));
                let mut count = 0u64;
                for i2 in 0..=s.min(63) {
                    for j in 0..=k {
                        let n = match (b as u64).checked_pow(j).and_then(|q| q.checked_mul(1u64 << i2)) {
                            Some(n) => n,
                            None => continue,
                        };
                        if usize::try_from(n).is_err() {
                            continue;
                        }
                        let w = match vh_core::engine::no_panic("get_root_of_unity", || get(n))? {
                            Some(w) => w,
                            None => return failure("fft.get_root_of_unity.none", format!("get_root_of_unity({} = 2^{} * {}^{}) = None", n, i2, b, j)),
                        };
                        if let Err(e) = has_order(&tw, &w, i2, b, j) {
                            return failure("fft.get_root_of_unity.order", format!("get_root_of_unity({}): {}", n, e));
                        }
                        count += 1;
                    }
                }
                o.show(|| format!("{}: get_root_of_unity(n) has order exactly n for the {} sizes n = 2^i * {}^j, i <= {}, j <= {}", name, count, b, s, k));
                o.nt(true);
                o.evals(count);
                Ok(())
            },
            _ => {
                // sizes outside the documented family: the answer must be None (or, if Some, still of order exactly n)
                let (b, k) = (small_base.unwrap_or(1), small_adic.unwrap_or(0));
                o.show(|| format!("{}: get_root_of_unity rejects 2^{}, 3*2^2 (b = {}), {}^{}", name, s + 1, b, b, k + 1));
                o.nt(true);
                if s < 62 {
                    check(get(1u64 << (s + 1)).is_none(), "fft.get_root_of_unity.too-large", || format!("get_root_of_unity(2^{}) is Some although TWO_ADICITY = {}", s + 1, s))?;
                }
                if b != 3 {
                    check(get(12).is_none(), "fft.get_root_of_unity.foreign-prime", || "get_root_of_unity(12) is Some although 3 is not the small-subgroup base".into())?;
                }
                if b > 1 {
                    if let Some(n) = (b as u64).checked_pow(k + 1) {
                        check(get(n).is_none(), "fft.get_root_of_unity.too-large", || format!("get_root_of_unity({}^{}) is Some", b, k + 1))?;
                    }
                }
                Ok(())
            },
        }
    }));
}

fn ext_structure(d: &ExtData, i: u64, o: &mut Obs) -> R {
    let bd = d.base.degree();
    let p = d.base.characteristic().clone();
    o.nt(!(i == 3 && matches!(d.sqrt, SqrtD::None)));
    match i {
        0 => {
            o.show(|| format!("{}: degree {} over a base of degree {}: DEGREE_OVER_BASE_PRIME_FIELD = {}", d.name, d.k, bd, d.declared_degree));
            check(d.declared_degree == d.k * bd, "DEGREE_OVER_BASE_PRIME_FIELD", || format!("declared {} expected {}", d.declared_degree, d.k * bd))?;
            check(d.ext_degree_fn as usize == d.k * bd, "extension_degree", || format!("extension_degree() = {}", d.ext_degree_fn))?;
            check(d.characteristic == p, "characteristic", || format!("characteristic() = {}", hx(&d.characteristic)))
        },
        1 => {
            let b = d.base.order();
            o.show(|| format!("{}: NONRESIDUE = {} is not a {} in the base field", d.name, show_elem(&d.base, &d.nonres), if d.k == 2 { "square" } else { "cube" }));
            check(!d.base.is_zero(&d.nonres), "NONRESIDUE.zero", || "NONRESIDUE is zero".into())?;
            if d.k == 2 {
                let e = d.base.pow(&d.nonres, &((&b - 1u32) >> 1));
                check(e == minus_one(&d.base), "NONRESIDUE.is-square", || format!("NONRESIDUE^((q-1)/2) = {} expected -1: X^2 - NONRESIDUE is reducible", show_elem(&d.base, &e)))?;
            } else {
                check((&b % 3u32).is_one(), "NONRESIDUE.cubic.q-mod-3", || "base field order is not 1 mod 3: X^3 - NONRESIDUE always has a root".into())?;
                let e = d.base.pow(&d.nonres, &((&b - 1u32) / 3u32));
                check(e != d.base.one(), "NONRESIDUE.is-cube", || "NONRESIDUE^((q-1)/3) = 1: X^3 - NONRESIDUE is reducible".into())?;
            }
            if d.must_be_x {
                // the generator X of the base field's own extension: (0, 1) resp. (0, 1, 0)
                let want = match &d.base {
                    Tower::Ext { deg, base, .. } => {
                        let mut v = vec![base.zero(); *deg];
                        v[1] = base.one();
                        Elem::E(v)
                    },
                    _ => return failure("NONRESIDUE.shape", "base field is prime".into()),
                };
                o.class("nonresidue-must-be-X");
                check(d.nonres == want, "NONRESIDUE.must-equal-X", || format!("documented to equal (0, 1[, 0]) but is {}", show_elem(&d.base, &d.nonres)))?;
            }
            Ok(())
        },
        2 => {
            o.show(|| format!("{}: Frobenius tables have {} / {} entries, the code indexes power % {}", d.name, d.c1.len(), d.c2.len(), d.declared_degree));
            check(d.c1.len() == d.declared_degree, "FROBENIUS_COEFF_C1.len", || format!("{} entries, indexed modulo {}", d.c1.len(), d.declared_degree))?;
            if d.k == 3 {
                check(d.c2.len() == d.declared_degree, "FROBENIUS_COEFF_C2.len", || format!("{} entries, indexed modulo {}", d.c2.len(), d.declared_degree))?;
            }
            Ok(())
        },
        _ => {
            o.show(|| format!("{}: SQRT_PRECOMP = {:?}", d.name, d.sqrt));
            check_sqrt(&d.full, &d.sqrt, o)
        },
    }
}

/// entry `i` of table `which` (1 or 2) equals NONRESIDUE^(which * (p^i - 1) / k), both when read directly and
/// when read through `mul_base_field_by_frob_coeff`
fn ext_frobenius(d: &ExtData, frob: &FrobFn, which: usize, i: usize, o: &mut Obs) -> R {
    let table = if which == 1 { &d.c1 } else { &d.c2 };
    let tname = if which == 1 { "FROBENIUS_COEFF_C1" } else { "FROBENIUS_COEFF_C2" };
    check(i < table.len(), &format!("{}.missing", tname), || format!("{} has {} entries but the Frobenius code indexes entry {}", tname, table.len(), i))?;
    let p = d.base.characteristic();
    let mut pi = BigUint::one();
    for _ in 0..i {
        pi *= p;
    }
    let num = (&pi - 1u32) * BigUint::from(which as u32);
    let k = BigUint::from(d.k as u32);
    check((&num % &k).is_zero(), &format!("{}.exponent", tname), || format!("(p^{} - 1) is not divisible by {}", i, d.k))?;
    let want = d.base.pow(&d.nonres, &(num / k));
    let got = embed(&d.coeff_tw, &table[i], &d.base);
    o.nt(i > 0);
    o.show(|| format!("{}: {}[{}] = NONRESIDUE^({}(p^{}-1)/{}) = {}", d.name, tname, i, which, i, d.k, show_elem(&d.base, &want)));
    check(got == want, &format!("{}.value", tname), || format!("{}[{}] = {} expected {}", tname, i, show_elem(&d.base, &got), show_elem(&d.base, &want)))?;
    if i < d.declared_degree {
        let via = no_panic("mul_base_field_by_frob_coeff", || frob(i))?;
        check(via[which - 1] == want, &format!("{}.via-mul_base_field_by_frob_coeff", tname), || {
            format!("mul_base_field_by_frob_coeff(1, {}) = {} expected {}", i, show_elem(&d.base, &via[which - 1]), show_elem(&d.base, &want))
        })?;
    }
    Ok(())
}

fn ext_mul_nr(d: &ExtData, prime: &FieldCtx, nr: &NrFn, t: &mut Tape<'_>, o: &mut Obs) -> R {
    let (y, yc) = edge_elem(t, &d.base, prime);
    let (x, _) = edge_elem(t, &d.base, prime);
    o.nt(!d.base.is_zero(&y));
    o.class(yc);
    o.show(|| format!("{}: y = {} x = {}", d.name, show_elem(&d.base, &y), show_elem(&d.base, &x)));
    let by = d.base.mul(&d.nonres, &y);
    let got = no_panic("mul_base_field_by_nonresidue", || nr(&y, &x))?;
    o.evals(got.len() as u64);
    for (what, g) in got {
        let want = match what {
            "in_place" | "by_value" => by.clone(),
            "and_add" => d.base.add(&x, &by),
            "plus_one_and_add" => d.base.add(&d.base.add(&x, &by), &y),
            _ => d.base.sub(&x, &by),
        };
        check(g == want, &format!("mul_by_nonresidue.{}", what), || {
            format!("{}: got {} expected {} (NONRESIDUE = {})", what, show_elem(&d.base, &g), show_elem(&d.base, &want), show_elem(&d.base, &d.nonres))
        })?;
    }
    Ok(())
}

fn ext_rels(out: &mut Vec<Rel>, d: ExtData, frob: FrobFn, nr: NrFn, tier: Tier) {
    let name = d.name;
    let d = Arc::new(d);
    let dd = d.clone();
    out.push(identities(format!("ext.structure/{}", name), 4, move |t, o| ext_structure(&dd, t.below(4), o)));
    let n1 = d.c1.len().max(d.declared_degree);
    let (dd, ff) = (d.clone(), frob.clone());
    out.push(identities(format!("ext.frobenius_c1/{}", name), n1, move |t, o| ext_frobenius(&dd, &ff, 1, t.below(n1 as u64) as usize, o)));
    if d.k == 3 {
        let n2 = d.c2.len().max(d.declared_degree);
        let (dd, ff) = (d.clone(), frob.clone());
        out.push(identities(format!("ext.frobenius_c2/{}", name), n2, move |t, o| ext_frobenius(&dd, &ff, 2, t.below(n2 as u64) as usize, o)));
    }
    let p = d.base.characteristic().clone();
    let mut l = p.to_u64_digits();
    if l.is_empty() {
        l.push(0);
    }
    let prime = FieldCtx::new("", &l);
    let words = 2 * (d.base.degree() * (3 * l.len() + 4) + 4);
    let dd = d.clone();
    out.push(Rel::new(format!("ext.mul_by_nonresidue/{}", name), tier.pick(64, 512), words, move |t, o| ext_mul_nr(&dd, &prime, &nr, t, o)));
}
