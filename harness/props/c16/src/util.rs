//! Small non-generic helpers shared by the C16 checkers.
use num_bigint::{BigInt, BigUint, Sign};
use num_traits::{One, Zero};
use vh_core::engine::{Fail, Rel, R};
use vh_core::tower::{Elem, Tower};

pub fn hx(v: &BigUint) -> String {
    format!("0x{:x}", v)
}

pub fn failure<T>(sig: &str, msg: String) -> Result<T, Fail> {
    Err(Fail { sig: sig.to_string(), msg })
}

pub fn check(c: bool, sig: &str, msg: impl FnOnce() -> String) -> R {
    if c {
        Ok(())
    } else {
        Err(Fail { sig: sig.to_string(), msg: msg() })
    }
}

/// primes below `bound` (simple sieve)
pub fn small_primes(bound: u32) -> Vec<u32> {
    let n = bound as usize;
    let mut s = vec![true; n + 1];
    let mut out = Vec::new();
    for i in 2..=n {
        if s[i] {
            out.push(i as u32);
            let mut j = i * i;
            while j <= n {
                s[j] = false;
                j += i;
            }
        }
    }
    out
}

/// distinct prime factors below `bound` of `n`, and the unfactored cofactor
pub fn partial_factor(n: &BigUint, bound: u32) -> (Vec<u32>, BigUint) {
    let mut rest = n.clone();
    let mut fs = Vec::new();
    for p in small_primes(bound) {
        let bp = BigUint::from(p);
        if (&rest % &bp).is_zero() {
            fs.push(p);
            while (&rest % &bp).is_zero() {
                rest /= &bp;
            }
        }
        if rest.is_one() {
            break;
        }
    }
    (fs, rest)
}

/// value of a little-endian signed-digit array (index 0 = least significant)
pub fn signed_digits_le(d: &[i8]) -> BigInt {
    let mut v = BigInt::zero();
    for x in d.iter().rev() {
        v = v * 2i32 + BigInt::from(*x);
    }
    v
}

/// value of a big-endian signed-digit array (index 0 = most significant)
pub fn signed_digits_be(d: &[i8]) -> BigInt {
    let mut v = BigInt::zero();
    for x in d.iter() {
        v = v * 2i32 + BigInt::from(*x);
    }
    v
}

pub fn sbig(neg: bool, mag: &BigUint) -> BigInt {
    BigInt::from_biguint(if neg { Sign::Minus } else { Sign::Plus }, mag.clone())
}

/// non-negative residue of a signed integer
pub fn smod(v: &BigInt, m: &BigUint) -> BigUint {
    use num_integer::Integer;
    let m = BigInt::from_biguint(Sign::Plus, m.clone());
    v.mod_floor(&m).to_biguint().unwrap()
}

pub fn show_elem(tw: &Tower, e: &Elem) -> String {
    let c: Vec<String> = tw.flatten(e).iter().map(hx).collect();
    format!("[{}]", c.join(", "))
}

/// embed an element of a sub-tower (reached by going down `base` links) into `big`
pub fn embed(sub: &Tower, e: &Elem, big: &Tower) -> Elem {
    if sub.degree() == big.degree() {
        return e.clone();
    }
    match big {
        Tower::Ext { base, .. } => big.from_base(&embed(sub, e, base)),
        Tower::Prime { .. } => panic!("cannot embed into a prime field"),
    }
}

/// -1 of a tower
pub fn minus_one(tw: &Tower) -> Elem {
    tw.neg(&tw.one())
}

/// a relation made of `n` deterministic identities: one exact-mode case per identity, no random cases
pub fn identities<F>(name: String, n: usize, f: F) -> Rel
where
    F: Fn(&mut vh_core::engine::Tape<'_>, &mut vh_core::engine::Obs) -> R + Send + Sync + 'static,
{
    Rel::new(name, 0, 1, f).exhaustive(move || Box::new((0..n as u64).map(|i| vec![i])))
}

