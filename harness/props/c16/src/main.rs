//! C16 — not implemented yet.
fn main() {
    eprintln!("C16: check not implemented");
    std::process::exit(2);
}
