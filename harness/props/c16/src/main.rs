//! C16 — every shipped field and curve configuration is internally consistent.
//!
//! The *configurations* are enumerated (macro lists below: every prime field, extension tower, curve,
//! GLV / SWU / WB / Elligator2 and pairing parameter set of the 27 crates under /repo/curves and of
//! /repo/test-curves); deterministic identities are single exact-mode cases, probabilistic identities use
//! witnesses decoded from the proptest tape.
mod curves;
mod fields;
mod pairing;
mod util;

use ark_ec::hashing::curve_maps::wb::WBConfig;
use ark_ec::models::short_weierstrass::SWCurveConfig;
use ark_ec::models::CurveConfig;
use ark_ff::fields::{fp6_2over3, fp6_3over2, Fp12ConfigWrapper, Fp2ConfigWrapper, Fp3ConfigWrapper, Fp4ConfigWrapper};
use num_bigint::BigUint;
use std::marker::PhantomData;
use util::*;
use vh_core::engine::{PropSpec, Rel, Tier};
use vh_core::modint::big;
use vh_core::tower::{Elem, OracleRepr};

/// compile-time witness that two paths name the same type (alias crates re-export another crate's configuration)
fn same_type<T>(_: PhantomData<T>, _: PhantomData<T>) {}

macro_rules! alias {
    ($a:ty, $b:ty) => {
        same_type(PhantomData::<$a>, PhantomData::<$b>);
    };
}

fn relations(tier: Tier) -> Vec<Rel> {
    let mut out: Vec<Rel> = Vec::new();

    // ---------------------------------------------------------------------------------------------
    // prime fields
    // ---------------------------------------------------------------------------------------------
    macro_rules! fp {
        ($cfg:ty, $n:expr, $name:expr) => {
            fields::prime_field::<$cfg, $n>(&mut out, $name, tier);
        };
    }
    fp!(ark_bls12_377::FqConfig, 6, "bls12_377.Fq");
    fp!(ark_bls12_377::FrConfig, 4, "bls12_377.Fr");
    fp!(ark_bls12_381::FqConfig, 6, "bls12_381.Fq");
    fp!(ark_bls12_381::FrConfig, 4, "bls12_381.Fr");
    fp!(ark_bn254::FqConfig, 4, "bn254.Fq");
    fp!(ark_bn254::FrConfig, 4, "bn254.Fr");
    fp!(ark_bw6_761::FqConfig, 12, "bw6_761.Fq");
    fp!(ark_bw6_767::FqConfig, 12, "bw6_767.Fq");
    fp!(ark_cp6_782::FqConfig, 13, "cp6_782.Fq");
    fp!(ark_curve25519::FqConfig, 4, "curve25519.Fq");
    fp!(ark_curve25519::FrConfig, 4, "curve25519.Fr");
    fp!(ark_ed_on_bls12_377::FrConfig, 4, "ed_on_bls12_377.Fr");
    fp!(ark_ed_on_bls12_381::FrConfig, 4, "ed_on_bls12_381.Fr");
    fp!(ark_ed_on_bls12_381_bandersnatch::FrConfig, 4, "ed_on_bls12_381_bandersnatch.Fr");
    fp!(ark_ed_on_bn254::FrConfig, 4, "ed_on_bn254.Fr");
    fp!(ark_ed_on_cp6_782::FrConfig, 6, "ed_on_cp6_782.Fr");
    fp!(ark_ed_on_mnt4_298::FrConfig, 5, "ed_on_mnt4_298.Fr");
    fp!(ark_ed_on_mnt4_753::FrConfig, 12, "ed_on_mnt4_753.Fr");
    fp!(ark_mnt4_298::FqConfig, 5, "mnt4_298.Fq");
    fp!(ark_mnt4_298::FrConfig, 5, "mnt4_298.Fr");
    fp!(ark_mnt4_753::FqConfig, 12, "mnt4_753.Fq");
    fp!(ark_mnt4_753::FrConfig, 12, "mnt4_753.Fr");
    fp!(ark_pallas::FqConfig, 4, "pallas.Fq");
    fp!(ark_pallas::FrConfig, 4, "pallas.Fr");
    fp!(ark_secp256k1::FqConfig, 4, "secp256k1.Fq");
    fp!(ark_secp256k1::FrConfig, 4, "secp256k1.Fr");
    fp!(ark_secp256r1::FqConfig, 4, "secp256r1.Fq");
    fp!(ark_secp256r1::FrConfig, 4, "secp256r1.Fr");
    fp!(ark_secp384r1::FqConfig, 6, "secp384r1.Fq");
    fp!(ark_secp384r1::FrConfig, 6, "secp384r1.Fr");
    fp!(ark_test_curves::bls12_381::FqConfig, 6, "test.bls12_381.Fq");
    fp!(ark_test_curves::bls12_381::FrConfig, 4, "test.bls12_381.Fr");
    fp!(ark_test_curves::ed_on_bls12_381::FrConfig, 4, "test.ed_on_bls12_381.Fr");
    fp!(ark_test_curves::mnt4_753::FqConfig, 12, "test.mnt4_753.Fq");
    fp!(ark_test_curves::mnt4_753::FrConfig, 12, "test.mnt4_753.Fr");
    fp!(ark_test_curves::bn384_small_two_adicity::FqConfig, 6, "test.bn384.Fq");
    fp!(ark_test_curves::bn384_small_two_adicity::FrConfig, 6, "test.bn384.Fr");
    fp!(ark_test_curves::secp256k1::FqConfig, 4, "test.secp256k1.Fq");
    fp!(ark_test_curves::secp256k1::FrConfig, 4, "test.secp256k1.Fr");
    fp!(ark_test_curves::fp128::FqConfig, 2, "test.fp128.Fq");

    // fields that are re-exports of a configuration checked above (verified by the type checker)
    alias!(ark_bw6_761::Fr, ark_bls12_377::Fq);
    alias!(ark_bw6_767::Fr, ark_bls12_381::Fq);
    alias!(ark_cp6_782::Fr, ark_bls12_377::Fq);
    alias!(ark_ed25519::Fq, ark_curve25519::Fq);
    alias!(ark_ed25519::Fr, ark_curve25519::Fr);
    alias!(ark_ed_on_bls12_377::Fq, ark_bls12_377::Fr);
    alias!(ark_ed_on_bls12_381::Fq, ark_bls12_381::Fr);
    alias!(ark_ed_on_bls12_381_bandersnatch::Fq, ark_bls12_381::Fr);
    alias!(ark_ed_on_bn254::Fq, ark_bn254::Fr);
    alias!(ark_ed_on_cp6_782::Fq, ark_bls12_377::Fq);
    alias!(ark_ed_on_bw6_761::Fq, ark_bls12_377::Fq);
    alias!(ark_ed_on_bw6_761::Fr, ark_ed_on_cp6_782::Fr);
    alias!(ark_ed_on_bw6_761::EdwardsConfig, ark_ed_on_cp6_782::EdwardsConfig);
    alias!(ark_ed_on_mnt4_298::Fq, ark_mnt4_298::Fr);
    alias!(ark_ed_on_mnt4_753::Fq, ark_mnt4_753::Fr);
    alias!(ark_grumpkin::Fq, ark_bn254::Fr);
    alias!(ark_grumpkin::Fr, ark_bn254::Fq);
    alias!(ark_mnt6_298::Fq, ark_mnt4_298::Fr);
    alias!(ark_mnt6_298::Fr, ark_mnt4_298::Fq);
    alias!(ark_mnt6_753::Fq, ark_mnt4_753::Fr);
    alias!(ark_mnt6_753::Fr, ark_mnt4_753::Fq);
    alias!(ark_vesta::Fq, ark_pallas::Fr);
    alias!(ark_vesta::Fr, ark_pallas::Fq);
    alias!(ark_secq256k1::Fq, ark_secp256k1::Fr);
    alias!(ark_secq256k1::Fr, ark_secp256k1::Fq);
    alias!(ark_test_curves::ed_on_bls12_381::Fq, ark_test_curves::bls12_381::Fr);
    alias!(ark_test_curves::mnt6_753::Fq, ark_test_curves::mnt4_753::Fr);
    alias!(ark_test_curves::mnt6_753::Fr, ark_test_curves::mnt4_753::Fq);

    // ---------------------------------------------------------------------------------------------
    // extension towers
    // ---------------------------------------------------------------------------------------------
    macro_rules! tower_2_6_12 {
        ($($krate:ident)::+, $name:expr) => {
            fields::quad_ext::<Fp2ConfigWrapper<$($krate)::+::Fq2Config>>(&mut out, concat!($name, ".Fq2"), tier, false);
            fields::cubic_ext::<fp6_3over2::Fp6ConfigWrapper<$($krate)::+::Fq6Config>>(&mut out, concat!($name, ".Fq6"), tier);
            fields::quad_ext::<Fp12ConfigWrapper<$($krate)::+::Fq12Config>>(&mut out, concat!($name, ".Fq12"), tier, true);
        };
    }
    tower_2_6_12!(ark_bls12_377, "bls12_377");
    tower_2_6_12!(ark_bls12_381, "bls12_381");
    tower_2_6_12!(ark_bn254, "bn254");
    tower_2_6_12!(ark_test_curves::bls12_381, "test.bls12_381");
    macro_rules! tower_3_6 {
        ($($krate:ident)::+, $name:expr) => {
            fields::cubic_ext::<Fp3ConfigWrapper<$($krate)::+::Fq3Config>>(&mut out, concat!($name, ".Fq3"), tier);
            fields::quad_ext::<fp6_2over3::Fp6ConfigWrapper<$($krate)::+::Fq6Config>>(&mut out, concat!($name, ".Fq6"), tier, false);
        };
    }
    tower_3_6!(ark_bw6_761, "bw6_761");
    tower_3_6!(ark_bw6_767, "bw6_767");
    tower_3_6!(ark_cp6_782, "cp6_782");
    tower_3_6!(ark_mnt6_298, "mnt6_298");
    tower_3_6!(ark_mnt6_753, "mnt6_753");
    fields::cubic_ext::<Fp3ConfigWrapper<ark_test_curves::mnt6_753::Fq3Config>>(&mut out, "test.mnt6_753.Fq3", tier);
    macro_rules! tower_2_4 {
        ($($krate:ident)::+, $name:expr) => {
            fields::quad_ext::<Fp2ConfigWrapper<$($krate)::+::Fq2Config>>(&mut out, concat!($name, ".Fq2"), tier, false);
            fields::quad_ext::<Fp4ConfigWrapper<$($krate)::+::Fq4Config>>(&mut out, concat!($name, ".Fq4"), tier, true);
        };
    }
    tower_2_4!(ark_mnt4_298, "mnt4_298");
    tower_2_4!(ark_mnt4_753, "mnt4_753");

    // ---------------------------------------------------------------------------------------------
    // curves (cost: relative cost of one r*(h*P) witness; divides the witness count)
    // ---------------------------------------------------------------------------------------------
    macro_rules! sw {
        ($cfg:ty, $name:expr, $cost:expr) => {
            curves::sw_curve::<$cfg>(&mut out, $name, tier, $cost);
        };
    }
    macro_rules! te {
        ($cfg:ty, $name:expr, $cost:expr) => {
            curves::te_curve::<$cfg>(&mut out, $name, tier, $cost);
        };
    }
    macro_rules! glv {
        ($cfg:ty, $name:expr, $cost:expr) => {
            curves::glv::<$cfg>(&mut out, $name, tier, $cost);
        };
    }
    macro_rules! wb {
        ($cfg:ty, $name:expr, $cost:expr) => {
            curves::wb::<$cfg>(&mut out, $name, tier, $cost);
            curves::swu::<<$cfg as WBConfig>::IsogenousCurve>(&mut out, concat!($name, ".iso"));
            curves::sw_curve::<<$cfg as WBConfig>::IsogenousCurve>(&mut out, concat!($name, ".iso"), tier, $cost);
        };
    }
    // BLS12-377
    sw!(ark_bls12_377::g1::Config, "bls12_377.G1", 1);
    glv!(ark_bls12_377::g1::Config, "bls12_377.G1", 1);
    wb!(ark_bls12_377::g1::Config, "bls12_377.G1", 1);
    te!(ark_bls12_377::g1::Config, "bls12_377.G1.te", 1);
    curves::sw_te_same_curve::<ark_bls12_377::g1::Config>(&mut out, "bls12_377.G1");
    sw!(ark_bls12_377::g2::Config, "bls12_377.G2", 4);
    glv!(ark_bls12_377::g2::Config, "bls12_377.G2", 4);
    wb!(ark_bls12_377::g2::Config, "bls12_377.G2", 4);
    // BLS12-381
    sw!(ark_bls12_381::g1::Config, "bls12_381.G1", 1);
    glv!(ark_bls12_381::g1::Config, "bls12_381.G1", 1);
    wb!(ark_bls12_381::g1::Config, "bls12_381.G1", 1);
    sw!(ark_bls12_381::g2::Config, "bls12_381.G2", 4);
    glv!(ark_bls12_381::g2::Config, "bls12_381.G2", 4);
    wb!(ark_bls12_381::g2::Config, "bls12_381.G2", 4);
    // BN254 and its cycle partner
    sw!(ark_bn254::g1::Config, "bn254.G1", 1);
    glv!(ark_bn254::g1::Config, "bn254.G1", 1);
    sw!(ark_bn254::g2::Config, "bn254.G2", 2);
    glv!(ark_bn254::g2::Config, "bn254.G2", 2);
    sw!(ark_grumpkin::GrumpkinConfig, "grumpkin", 1);
    // BW6 / CP6
    sw!(ark_bw6_761::g1::Config, "bw6_761.G1", 4);
    glv!(ark_bw6_761::g1::Config, "bw6_761.G1", 4);
    sw!(ark_bw6_761::g2::Config, "bw6_761.G2", 4);
    glv!(ark_bw6_761::g2::Config, "bw6_761.G2", 4);
    sw!(ark_bw6_767::g1::Config, "bw6_767.G1", 4);
    sw!(ark_bw6_767::g2::Config, "bw6_767.G2", 4);
    sw!(ark_cp6_782::g1::Config, "cp6_782.G1", 4);
    sw!(ark_cp6_782::g2::Config, "cp6_782.G2", 16);
    // MNT
    sw!(ark_mnt4_298::g1::Config, "mnt4_298.G1", 1);
    sw!(ark_mnt4_298::g2::Config, "mnt4_298.G2", 4);
    sw!(ark_mnt4_753::g1::Config, "mnt4_753.G1", 4);
    sw!(ark_mnt4_753::g2::Config, "mnt4_753.G2", 16);
    sw!(ark_mnt6_298::g1::Config, "mnt6_298.G1", 1);
    sw!(ark_mnt6_298::g2::Config, "mnt6_298.G2", 8);
    sw!(ark_mnt6_753::g1::Config, "mnt6_753.G1", 4);
    sw!(ark_mnt6_753::g2::Config, "mnt6_753.G2", 16);
    // plain curves
    sw!(ark_pallas::PallasConfig, "pallas", 1);
    glv!(ark_pallas::PallasConfig, "pallas", 1);
    sw!(ark_vesta::VestaConfig, "vesta", 1);
    glv!(ark_vesta::VestaConfig, "vesta", 1);
    sw!(ark_secp256k1::Config, "secp256k1", 1);
    sw!(ark_secq256k1::Config, "secq256k1", 1);
    sw!(ark_secp256r1::Config, "secp256r1", 1);
    sw!(ark_secp384r1::Config, "secp384r1", 1);
    // twisted Edwards
    te!(ark_curve25519::Curve25519Config, "curve25519", 1);
    te!(ark_ed25519::EdwardsConfig, "ed25519", 1);
    te!(ark_ed_on_bls12_377::EdwardsConfig, "ed_on_bls12_377", 1);
    te!(ark_ed_on_bls12_381::JubjubConfig, "ed_on_bls12_381", 1);
    sw!(ark_ed_on_bls12_381::JubjubConfig, "ed_on_bls12_381.sw", 1);
    curves::sw_te_same_curve::<ark_ed_on_bls12_381::JubjubConfig>(&mut out, "ed_on_bls12_381");
    te!(ark_ed_on_bls12_381_bandersnatch::BandersnatchConfig, "ed_on_bls12_381_bandersnatch", 1);
    sw!(ark_ed_on_bls12_381_bandersnatch::BandersnatchConfig, "ed_on_bls12_381_bandersnatch.sw", 1);
    curves::sw_te_same_curve::<ark_ed_on_bls12_381_bandersnatch::BandersnatchConfig>(&mut out, "ed_on_bls12_381_bandersnatch");
    curves::elligator2::<ark_ed_on_bls12_381_bandersnatch::BandersnatchConfig>(&mut out, "ed_on_bls12_381_bandersnatch");
    te!(ark_ed_on_bn254::EdwardsConfig, "ed_on_bn254", 1);
    te!(ark_ed_on_cp6_782::EdwardsConfig, "ed_on_cp6_782", 1);
    te!(ark_ed_on_mnt4_298::EdwardsConfig, "ed_on_mnt4_298", 1);
    te!(ark_ed_on_mnt4_753::EdwardsConfig, "ed_on_mnt4_753", 4);
    // test-curves
    sw!(ark_test_curves::bls12_381::g1::Config, "test.bls12_381.G1", 1);
    glv!(ark_test_curves::bls12_381::g1::Config, "test.bls12_381.G1", 1);
    wb!(ark_test_curves::bls12_381::g1::Config, "test.bls12_381.G1", 1);
    sw!(ark_test_curves::bls12_381::g2::Config, "test.bls12_381.G2", 4);
    wb!(ark_test_curves::bls12_381::g2::Config, "test.bls12_381.G2", 4);
    sw!(ark_test_curves::mnt4_753::g1::Config, "test.mnt4_753.G1", 4);
    sw!(ark_test_curves::bn384_small_two_adicity::g1::Config, "test.bn384.G1", 1);
    sw!(ark_test_curves::secp256k1::Config, "test.secp256k1", 1);
    te!(ark_test_curves::ed_on_bls12_381::EdwardsConfig, "test.ed_on_bls12_381", 1);

    // ---------------------------------------------------------------------------------------------
    // pairing parameter sets
    // ---------------------------------------------------------------------------------------------
    pairing::bls12_cfg::<ark_bls12_377::Config>(&mut out, "bls12_377");
    pairing::bls12_cfg::<ark_bls12_381::Config>(&mut out, "bls12_381");
    pairing::bls12_cfg::<ark_test_curves::bls12_381::Config>(&mut out, "test.bls12_381");
    pairing::bn_cfg::<ark_bn254::Config>(&mut out, "bn254", tier);
    pairing::bw6_cfg::<ark_bw6_761::Config>(&mut out, "bw6_761");
    pairing::bw6_cfg::<ark_bw6_767::Config>(&mut out, "bw6_767");
    pairing::mnt4_cfg::<ark_mnt4_298::Config>(&mut out, "mnt4_298");
    pairing::mnt4_cfg::<ark_mnt4_753::Config>(&mut out, "mnt4_753");
    pairing::mnt6_cfg::<ark_mnt6_298::Config>(&mut out, "mnt6_298");
    pairing::mnt6_cfg::<ark_mnt6_753::Config>(&mut out, "mnt6_753");
    {
        // CP6-782 is not an instance of a model trait: public constants of the crate
        use ark_cp6_782 as c;
        let tw = <c::Fq3 as OracleRepr>::tower();
        let d = pairing::MntData {
            name: "cp6_782",
            k: 6,
            q: big(&<c::FqConfig as ark_ff::MontConfig<13>>::MODULUS.0),
            r: big(&<ark_bls12_377::FqConfig as ark_ff::MontConfig<6>>::MODULUS.0),
            h1: big(<c::g1::Config as CurveConfig>::COFACTOR),
            twist: c::TWIST.to_o(),
            twist_coeff_a: None,
            g1a: tw.from_base(&<c::g1::Config as SWCurveConfig>::COEFF_A.to_o()),
            g1b: tw.from_base(&<c::g1::Config as SWCurveConfig>::COEFF_B.to_o()),
            g2a: <c::g2::Config as SWCurveConfig>::COEFF_A.to_o(),
            g2b: <c::g2::Config as SWCurveConfig>::COEFF_B.to_o(),
            ate_be: vec![],
            ate_neg: c::ATE_IS_LOOP_COUNT_NEG,
            ate_is_trace_minus_one: false,
            w1: big(c::FINAL_EXPONENT_LAST_CHUNK_W1.as_ref()),
            w0: big(c::FINAL_EXPONENT_LAST_CHUNK_ABS_OF_W0.as_ref()),
            w0_neg: c::FINAL_EXPONENT_LAST_CHUNK_W0_IS_NEG,
            tw,
        };
        pairing::mnt_rels(&mut out, d);
    }
    pairing::bilinear::<ark_bls12_377::Bls12_377>(&mut out, "bls12_377", tier, 4);
    pairing::bilinear::<ark_bls12_381::Bls12_381>(&mut out, "bls12_381", tier, 4);
    pairing::bilinear::<ark_test_curves::bls12_381::Bls12_381>(&mut out, "test.bls12_381", tier, 4);
    pairing::bilinear::<ark_bn254::Bn254>(&mut out, "bn254", tier, 4);
    pairing::bilinear::<ark_bw6_761::BW6_761>(&mut out, "bw6_761", tier, 4);
    pairing::bilinear::<ark_bw6_767::BW6_767>(&mut out, "bw6_767", tier, 4);
    pairing::bilinear::<ark_cp6_782::CP6_782>(&mut out, "cp6_782", tier, 2);
    pairing::bilinear::<ark_mnt4_298::MNT4_298>(&mut out, "mnt4_298", tier, 4);
    pairing::bilinear::<ark_mnt4_753::MNT4_753>(&mut out, "mnt4_753", tier, 2);
    pairing::bilinear::<ark_mnt6_298::MNT6_298>(&mut out, "mnt6_298", tier, 4);
    pairing::bilinear::<ark_mnt6_753::MNT6_753>(&mut out, "mnt6_753", tier, 2);

    // ---------------------------------------------------------------------------------------------
    // documented stand-alone public constants
    // ---------------------------------------------------------------------------------------------
    {
        // curves/bls12_381 g1::BETA: "a non-trivial cubic root of unity in Fq"
        let p = big(&<ark_bls12_381::FqConfig as ark_ff::MontConfig<6>>::MODULUS.0);
        let b = match ark_bls12_381::g1::BETA.to_o() {
            Elem::P(v) => v,
            _ => unreachable!(),
        };
        out.push(identities("misc.BETA/bls12_381.G1".into(), 1, move |_t, o| {
            o.nt(true);
            o.show(|| format!("bls12_381 g1::BETA = {} is a non-trivial cube root of unity", hx(&b)));
            check(b != BigUint::from(1u32) && (&b * &b * &b) % &p == BigUint::from(1u32), "BETA", || format!("BETA^3 mod q = {}", hx(&((&b * &b * &b) % &p))))
        }));
    }
    {
        // test-curves bls12_381 g2: PSI_X = 1/(u+1)^((p-1)/3), PSI_Y = 1/(u+1)^((p-1)/2); the third constant is
        // documented in curves/bls12_381 as PSI_2_X = (u+1)^((1-p^2)/3)
        use ark_test_curves::bls12_381 as c;
        let tw = <c::Fq2 as OracleRepr>::tower();
        let xi = <c::Fq6Config as fp6_3over2::Fp6Config>::NONRESIDUE.to_o();
        let consts = [c::g2::P_POWER_ENDOMORPHISM_COEFF_0.to_o(), c::g2::P_POWER_ENDOMORPHISM_COEFF_1.to_o(), c::g2::DOUBLE_P_POWER_ENDOMORPHISM.to_o()];
        out.push(identities("misc.psi_coefficients/test.bls12_381.G2".into(), 3, move |t, o| {
            let i = t.below(3) as usize;
            let p = tw.characteristic().clone();
            o.nt(true);
            // c * xi^e = 1
            let e = match i {
                0 => (&p - 1u32) / 3u32,
                1 => (&p - 1u32) / 2u32,
                _ => (&p * &p - 1u32) / 3u32,
            };
            let v = tw.mul(&consts[i], &tw.pow(&xi, &e));
            o.show(|| format!("test.bls12_381.G2 psi coefficient {} = {} is the inverse of (u+1)^{}", i, show_elem(&tw, &consts[i]), ["((p-1)/3)", "((p-1)/2)", "((p^2-1)/3)"][i]));
            check(v == tw.one(), "psi-coefficient", || format!("coefficient {} times the documented power of (u+1) is {} expected 1", i, show_elem(&tw, &v)))
        }));
    }
    {
        // named zero / one constants exported by field modules (typed literals `MontFp!("1")`, `MontFp!("0")`)
        let units: Vec<(&'static str, Elem, Elem)> = vec![
            ("bls12_381.FQ_ONE", ark_bls12_381::FQ_ONE.to_o(), <ark_bls12_381::Fq as OracleRepr>::tower().one()),
            ("bls12_381.FQ_ZERO", ark_bls12_381::FQ_ZERO.to_o(), <ark_bls12_381::Fq as OracleRepr>::tower().zero()),
            ("test.bls12_381.FQ_ONE", ark_test_curves::bls12_381::FQ_ONE.to_o(), <ark_test_curves::bls12_381::Fq as OracleRepr>::tower().one()),
            ("test.bls12_381.FQ_ZERO", ark_test_curves::bls12_381::FQ_ZERO.to_o(), <ark_test_curves::bls12_381::Fq as OracleRepr>::tower().zero()),
            ("test.bls12_381.FQ2_ONE", ark_test_curves::bls12_381::FQ2_ONE.to_o(), <ark_test_curves::bls12_381::Fq2 as OracleRepr>::tower().one()),
            ("test.bls12_381.FQ2_ZERO", ark_test_curves::bls12_381::FQ2_ZERO.to_o(), <ark_test_curves::bls12_381::Fq2 as OracleRepr>::tower().zero()),
            ("test.bn384.FQ_ONE", ark_test_curves::bn384_small_two_adicity::FQ_ONE.to_o(), <ark_test_curves::bn384_small_two_adicity::Fq as OracleRepr>::tower().one()),
            ("test.bn384.FQ_ZERO", ark_test_curves::bn384_small_two_adicity::FQ_ZERO.to_o(), <ark_test_curves::bn384_small_two_adicity::Fq as OracleRepr>::tower().zero()),
            ("test.bn384.FR_ONE", ark_test_curves::bn384_small_two_adicity::FR_ONE.to_o(), <ark_test_curves::bn384_small_two_adicity::Fr as OracleRepr>::tower().one()),
            ("test.bn384.FR_ZERO", ark_test_curves::bn384_small_two_adicity::FR_ZERO.to_o(), <ark_test_curves::bn384_small_two_adicity::Fr as OracleRepr>::tower().zero()),
            ("test.mnt4_753.FR_ONE", ark_test_curves::mnt4_753::FR_ONE.to_o(), <ark_test_curves::mnt4_753::Fr as OracleRepr>::tower().one()),
            ("test.mnt6_753.FQ_ONE", ark_test_curves::mnt6_753::FQ_ONE.to_o(), <ark_test_curves::mnt6_753::Fq as OracleRepr>::tower().one()),
            ("test.mnt6_753.FQ_ZERO", ark_test_curves::mnt6_753::FQ_ZERO.to_o(), <ark_test_curves::mnt6_753::Fq as OracleRepr>::tower().zero()),
        ];
        let n = units.len();
        out.push(identities("misc.named_units".into(), n, move |t, o| {
            let i = t.below(n as u64) as usize;
            o.nt(true);
            let (name, got, want) = &units[i];
            o.show(|| format!("{} = {:?}", name, got));
            check(got == want, "named-unit", || format!("{} = {:?} expected {:?}", name, got, want))
        }));
    }
    out
}

fn main() {
    vh_core::engine::main(PropSpec {
        id: "C16",
        rule: "The configurations are enumerated, not generated: every prime field (40 distinct MontConfig types; 28 further paths are re-exports, proved identical by the type checker), extension tower (27 levels; for each level also the FftField constants of the extension-field impl: TWO_ADIC_ROOT_OF_UNITY of order exactly 2^TWO_ADICITY, small-subgroup constants all-or-none and LARGE_SUBGROUP_ROOT_OF_UNITY of order exactly 2^s*b^k, get_root_of_unity(n) of order exactly n for every n = 2^i*b^j, decided by oracle exponentiation in the tower), the named zero/one constants exported by field modules, short-Weierstrass (40) and twisted-Edwards (11) curve, GLV (11), SWU/WB (6), Elligator2 (1) and pairing (11 engines) parameter set of the 27 crates under curves/ and of test-curves. One relation per (configuration, identity family). Deterministic identities (one exact-mode case each) are recomputed with num-bigint / schoolbook tower arithmetic from the modulus and NONRESIDUE only; probabilistic identities (r*(h*P)=O on the whole curve, phi(Q)=lambda*Q, isogeny additivity, psi(Q)=[q]Q, mul_by_a/add_b/mul_by_nonresidue helpers, bilinearity) use witnesses decoded from the proptest tape (64 per identity in quick, 512 in thorough, divided by a cost factor for the 753-bit towers) and the harness' own affine group laws and MSB-first double-and-add. A case is non-trivial when its witness is (deterministic identity that is not vacuous for the configuration; random witness that is a non-zero element / non-identity point); distinct = distinct decoded choices.",
        assumptions: &[
            "num-bigint arithmetic and the harness' Miller-Rabin (25 prime bases) are correct",
            "arkworks prime/extension field arithmetic (C01/C02) is used inside the curve oracles (group law, scalar multiplication, isogeny evaluation)",
            "GENERATOR is checked to be a quadratic non-residue (the property's statement); its full multiplicative order p-1 (MontConfig doc comment) is only reported as an observation class (trial division of p-1 below 2^20, 2^24 thorough), never as a failure",
            "constants without a documented defining equation (BW6 H_T/H_Y/T_MOD_R_IS_ZERO, CP6-782 ATE_LOOP_COUNT, private psi coefficients of the curve crates) are covered only through the bilinearity sanity relation or other properties (C06, C12)",
        ],
        relations,
    })
}
