//! Pairing parameter sets: family polynomials (BLS12, BN, BW6), loop counts, twist coefficients,
//! MNT / CP6 final-exponent chunks, and a small bilinearity sanity check per engine.
use crate::util::*;
use ark_ec::models::short_weierstrass::SWCurveConfig;
use ark_ec::models::CurveConfig;
use ark_ec::pairing::Pairing;
use ark_ec::{bls12, bn, bw6, mnt4, mnt6, AffineRepr, CurveGroup, PrimeGroup};
use ark_ff::fields::{fp6_3over2, Fp3Config};
use ark_ff::{Field, PrimeField};
use num_bigint::{BigInt, BigUint};
use num_traits::{One, Zero};
use std::sync::Arc;
use vh_core::curve::*;
use vh_core::engine::{Obs, Rel, Tier, R};
use vh_core::gen::big_below;
use vh_core::modint::*;
use vh_core::tower::{Elem, OracleRepr, Tower};

fn modulus_of<F: PrimeField>() -> BigUint {
    big(F::MODULUS.as_ref())
}

/// G2 coefficient b' against G1 coefficient b and the sextic non-residue xi: M-type b' = b xi, D-type b' xi = b
fn twist_b(tw: &Tower, is_m: bool, b1: &Elem, b2: &Elem, xi: &Elem, a1_zero: bool, a2_zero: bool, name: &str, o: &mut Obs) -> R {
    o.show(|| format!("{}: {}-type twist: b' = {}, b = {}, xi = {}", name, if is_m { "M" } else { "D" }, show_elem(tw, b2), show_elem(tw, b1), show_elem(tw, xi)));
    check(a1_zero && a2_zero, "twist.coeff_a", || "sextic twists need a = a' = 0".into())?;
    let (l, r) = if is_m { (b2.clone(), tw.mul(b1, xi)) } else { (tw.mul(b2, xi), b1.clone()) };
    check(l == r, "twist.coeff_b", || {
        format!("G2 COEFF_B = {} is not G1 COEFF_B {} the twist non-residue {} (TWIST_TYPE::{})", show_elem(tw, b2), if is_m { "times" } else { "divided by" }, show_elem(tw, xi), if is_m { "M" } else { "D" })
    })
}

// ------------------------------------------------------------------------------------------------
// BLS12
// ------------------------------------------------------------------------------------------------

pub fn bls12_cfg<P: bls12::Bls12Config>(out: &mut Vec<Rel>, name: &'static str)
where
    P::Fp: OracleRepr,
{
    type Fq2<P> = ark_ff::Fp2<<P as bls12::Bls12Config>::Fp2Config>;
    let x = sbig(P::X_IS_NEGATIVE, &big(P::X));
    let q = modulus_of::<P::Fp>();
    let r = modulus_of::<<P::G1Config as CurveConfig>::ScalarField>();
    let tw = <Fq2<P> as OracleRepr>::tower();
    let is_m = matches!(P::TWIST_TYPE, bls12::TwistType::M);
    let b1 = tw.from_base(&<P::G1Config as SWCurveConfig>::COEFF_B.to_o());
    let b2 = <P::G2Config as SWCurveConfig>::COEFF_B.to_o();
    let xi = <P::Fp6Config as fp6_3over2::Fp6Config>::NONRESIDUE.to_o();
    let a1z = <P::G1Config as SWCurveConfig>::COEFF_A.is_zero();
    let a2z = <P::G2Config as SWCurveConfig>::COEFF_A.is_zero();
    out.push(identities(format!("bls12.params/{}", name), 3, move |t, o| {
        o.nt(true);
        let x2 = &x * &x;
        let rx = &x2 * &x2 - &x2 + 1i32;
        match t.below(3) {
            0 => {
                o.show(|| format!("{}: x = {}, r = x^4 - x^2 + 1 = {}", name, x, rx));
                check(rx == BigInt::from(r.clone()), "bls12.r", || format!("x^4 - x^2 + 1 = {} but the scalar field modulus is {}", rx, r))
            },
            1 => {
                let num = (&x - 1i32) * (&x - 1i32) * &rx;
                check((&num % 3i32).is_zero(), "bls12.q.divisible", || "(x-1)^2 r is not divisible by 3".into())?;
                let qx = num / 3i32 + &x;
                o.show(|| format!("{}: q = (x-1)^2 r / 3 + x = {}", name, qx));
                check(qx == BigInt::from(q.clone()), "bls12.q", || format!("(x-1)^2 r/3 + x = {} but the base field modulus is {}", qx, q))
            },
            _ => twist_b(&tw, is_m, &b1, &b2, &xi, a1z, a2z, name, o),
        }
    }));
}

// ------------------------------------------------------------------------------------------------
// BN
// ------------------------------------------------------------------------------------------------

pub fn bn_cfg<P: bn::BnConfig>(out: &mut Vec<Rel>, name: &'static str, tier: Tier)
where
    P::Fp: OracleRepr,
    <P::G2Config as CurveConfig>::ScalarField: OracleRepr,
{
    type Fq2<P> = ark_ff::Fp2<<P as bn::BnConfig>::Fp2Config>;
    let x = sbig(P::X_IS_NEGATIVE, &big(P::X));
    let q = modulus_of::<P::Fp>();
    let r = modulus_of::<<P::G1Config as CurveConfig>::ScalarField>();
    let tw = <Fq2<P> as OracleRepr>::tower();
    let is_m = matches!(P::TWIST_TYPE, bn::TwistType::M);
    let b1 = tw.from_base(&<P::G1Config as SWCurveConfig>::COEFF_B.to_o());
    let b2 = <P::G2Config as SWCurveConfig>::COEFF_B.to_o();
    let xi = <P::Fp6Config as fp6_3over2::Fp6Config>::NONRESIDUE.to_o();
    let a1z = <P::G1Config as SWCurveConfig>::COEFF_A.is_zero();
    let a2z = <P::G2Config as SWCurveConfig>::COEFF_A.is_zero();
    let ate = P::ATE_LOOP_COUNT.to_vec();
    {
        let (x, q, r, tw) = (x.clone(), q.clone(), r.clone(), tw.clone());
        out.push(identities(format!("bn.params/{}", name), 4, move |t, o| {
            o.nt(true);
            let x2 = &x * &x;
            let base = &x2 * &x2 * 36i32 + &x2 * &x * 36i32 + &x * 6i32 + 1i32;
            match t.below(4) {
                0 => {
                    let qx = &base + &x2 * 24i32;
                    o.show(|| format!("{}: x = {}, q = 36x^4+36x^3+24x^2+6x+1 = {}", name, x, qx));
                    check(qx == BigInt::from(q.clone()), "bn.q", || format!("36x^4+36x^3+24x^2+6x+1 = {} but the base field modulus is {}", qx, q))
                },
                1 => {
                    let rx = &base + &x2 * 18i32;
                    o.show(|| format!("{}: r = 36x^4+36x^3+18x^2+6x+1 = {}", name, rx));
                    check(rx == BigInt::from(r.clone()), "bn.r", || format!("36x^4+36x^3+18x^2+6x+1 = {} but the scalar field modulus is {}", rx, r))
                },
                2 => {
                    let want: BigUint = (&x * 6i32 + 2i32).magnitude().clone();
                    let got = signed_digits_le(&ate);
                    o.show(|| format!("{}: ATE_LOOP_COUNT digits sum to {} = |6x+2|", name, got));
                    check(ate.iter().all(|d| (-1..=1).contains(d)), "bn.ATE_LOOP_COUNT.digits", || "digit outside {-1,0,1}".into())?;
                    check(got == BigInt::from(want.clone()), "bn.ATE_LOOP_COUNT", || format!("signed digits evaluate to {} expected |6x+2| = {}", got, want))
                },
                _ => twist_b(&tw, is_m, &b1, &b2, &xi, a1z, a2z, name, o),
            }
        }));
    }
    // TWIST_MUL_BY_Q_X/Y: "multiply by field characteristic": (x^q TWX, y^q TWY) = [q] Q on the order-r subgroup of the twist
    let g2 = sw_from_affine::<P::G2Config>(&<P::G2Config as SWCurveConfig>::GENERATOR);
    let a2 = <P::G2Config as SWCurveConfig>::COEFF_A;
    let (twx, twy) = (P::TWIST_MUL_BY_Q_X, P::TWIST_MUL_BY_Q_Y);
    let words = r.to_u64_digits().len() + 3;
    out.push(
        Rel::new(format!("bn.twist_mul_by_q/{}", name), tier.pick(16, 128), words, move |t, o| {
            let k = big_below(t, &r);
            let pt = sw_mul(&a2, &g2, &k);
            o.nt(pt != Sw::Inf);
            o.show(|| format!("{}: Q = {} * G2", name, hx(&k)));
            let want = sw_mul(&a2, &pt, &(&q % &r));
            let got = match &pt {
                Sw::Inf => Sw::Inf,
                Sw::Aff(px, py) => {
                    // Frobenius by the oracle: u^q in F_q[X]/(X^2 - beta)
                    let fx = <Fq2<P> as OracleRepr>::from_o(&tw.pow(&px.to_o(), &q));
                    let fy = <Fq2<P> as OracleRepr>::from_o(&tw.pow(&py.to_o(), &q));
                    Sw::Aff(fx * twx, fy * twy)
                },
            };
            let sh = |p: &Sw<Fq2<P>>| match p {
                Sw::Inf => "O".to_string(),
                Sw::Aff(x, y) => format!("({}, {})", show_elem(&tw, &x.to_o()), show_elem(&tw, &y.to_o())),
            };
            check(got == want, "bn.TWIST_MUL_BY_Q", || format!("(x^q TWIST_MUL_BY_Q_X, y^q TWIST_MUL_BY_Q_Y) = {} but [q]Q = {} for Q = {}*G2", sh(&got), sh(&want), hx(&k)))
        })
        .shrink_iters(32),
    );
}

// ------------------------------------------------------------------------------------------------
// BW6
// ------------------------------------------------------------------------------------------------

pub fn bw6_cfg<P: bw6::BW6Config>(out: &mut Vec<Rel>, name: &'static str)
where
    P::Fp: OracleRepr,
{
    let xabs = big(P::X.as_ref());
    let xneg = P::X_IS_NEGATIVE;
    let x = sbig(xneg, &xabs);
    let xm1d3 = big(P::X_MINUS_1_DIV_3.as_ref());
    let ate1 = big(P::ATE_LOOP_COUNT_1);
    let ate1_neg = P::ATE_LOOP_COUNT_1_IS_NEGATIVE;
    let ate2 = P::ATE_LOOP_COUNT_2.to_vec();
    let ate2_neg = P::ATE_LOOP_COUNT_2_IS_NEGATIVE;
    let r = modulus_of::<<P::G1Config as CurveConfig>::ScalarField>();
    let tw = <P::Fp as OracleRepr>::tower();
    let is_m = matches!(P::TWIST_TYPE, bw6::TwistType::M);
    let b1 = <P::G1Config as SWCurveConfig>::COEFF_B.to_o();
    let b2 = <P::G2Config as SWCurveConfig>::COEFF_B.to_o();
    let xi = <P::Fp3Config as Fp3Config>::NONRESIDUE.to_o();
    let a1z = <P::G1Config as SWCurveConfig>::COEFF_A.is_zero();
    let a2z = <P::G2Config as SWCurveConfig>::COEFF_A.is_zero();
    out.push(identities(format!("bw6.params/{}", name), 5, move |t, o| {
        o.nt(true);
        match t.below(5) {
            0 => {
                // "[X-1]/3 for X>0, and [(-X)+1]/3 otherwise"
                let num = if xneg { &xabs + 1u32 } else { &xabs - 1u32 };
                o.show(|| format!("{}: X = {}, X_MINUS_1_DIV_3 = {}", name, x, hx(&xm1d3)));
                check((&num % 3u32).is_zero(), "bw6.X_MINUS_1_DIV_3.divisible", || "not divisible by 3".into())?;
                check(xm1d3 == &num / 3u32, "bw6.X_MINUS_1_DIV_3", || format!("got {} expected {}", hx(&xm1d3), hx(&(&num / 3u32))))
            },
            1 => {
                o.show(|| format!("{}: ATE_LOOP_COUNT_1 = {} (negative: {}) is X", name, hx(&ate1), ate1_neg));
                check(ate1 == xabs && ate1_neg == xneg, "bw6.ATE_LOOP_COUNT_1", || format!("|ATE_LOOP_COUNT_1| = {} neg {} expected X = {}", hx(&ate1), ate1_neg, x))
            },
            2 => {
                let want = &x * &x - &x - 1i32;
                let got = signed_digits_le(&ate2) * if ate2_neg { -1i32 } else { 1i32 };
                o.show(|| format!("{}: ATE_LOOP_COUNT_2 = {} = X^2 - X - 1", name, got));
                check(ate2.iter().all(|d| (-1..=1).contains(d)), "bw6.ATE_LOOP_COUNT_2.digits", || "digit outside {-1,0,1}".into())?;
                check(got == want, "bw6.ATE_LOOP_COUNT_2", || format!("signed digits evaluate to {} expected X^2-X-1 = {}", got, want))
            },
            3 => {
                // the scalar field is the base field of the BLS12 curve with the same seed
                let x2 = &x * &x;
                let rb = &x2 * &x2 - &x2 + 1i32;
                let num = (&x - 1i32) * (&x - 1i32) * rb;
                let want = num / 3i32 + &x;
                o.show(|| format!("{}: r = q_BLS12(X) = {}", name, want));
                check(want == BigInt::from(r.clone()), "bw6.r", || format!("(X-1)^2 (X^4-X^2+1)/3 + X = {} but the scalar field modulus is {}", want, r))
            },
            _ => twist_b(&tw, is_m, &b1, &b2, &xi, a1z, a2z, name, o),
        }
    }));
}

// ------------------------------------------------------------------------------------------------
// MNT4 / MNT6 / CP6
// ------------------------------------------------------------------------------------------------

pub struct MntData {
    pub name: &'static str,
    pub k: usize,
    pub q: BigUint,
    pub r: BigUint,
    /// cofactor of G1 (the trace is q + 1 - h r)
    pub h1: BigUint,
    pub tw: Tower,
    pub twist: Elem,
    pub twist_coeff_a: Option<Elem>,
    pub g1a: Elem,
    pub g1b: Elem,
    pub g2a: Elem,
    pub g2b: Elem,
    /// most significant digit first
    pub ate_be: Vec<i8>,
    pub ate_neg: bool,
    /// the four MNT configurations use T = t - 1; CP6-782 documents no closed form
    pub ate_is_trace_minus_one: bool,
    pub w1: BigUint,
    pub w0: BigUint,
    pub w0_neg: bool,
}

pub fn mnt4_cfg<P: mnt4::MNT4Config>(out: &mut Vec<Rel>, name: &'static str)
where
    P::Fp: OracleRepr,
{
    type Fq2<P> = ark_ff::Fp2<<P as mnt4::MNT4Config>::Fp2Config>;
    let tw = <Fq2<P> as OracleRepr>::tower();
    let d = MntData {
        name,
        k: 4,
        q: modulus_of::<P::Fp>(),
        r: modulus_of::<P::Fr>(),
        h1: big(<P::G1Config as CurveConfig>::COFACTOR),
        twist: P::TWIST.to_o(),
        twist_coeff_a: Some(P::TWIST_COEFF_A.to_o()),
        g1a: tw.from_base(&<P::G1Config as SWCurveConfig>::COEFF_A.to_o()),
        g1b: tw.from_base(&<P::G1Config as SWCurveConfig>::COEFF_B.to_o()),
        g2a: <P::G2Config as SWCurveConfig>::COEFF_A.to_o(),
        g2b: <P::G2Config as SWCurveConfig>::COEFF_B.to_o(),
        ate_be: P::ATE_LOOP_COUNT.to_vec(),
        ate_neg: P::ATE_IS_LOOP_COUNT_NEG,
        ate_is_trace_minus_one: true,
        w1: big(P::FINAL_EXPONENT_LAST_CHUNK_1.as_ref()),
        w0: big(P::FINAL_EXPONENT_LAST_CHUNK_ABS_OF_W0.as_ref()),
        w0_neg: P::FINAL_EXPONENT_LAST_CHUNK_W0_IS_NEG,
        tw,
    };
    mnt_rels(out, d);
}

pub fn mnt6_cfg<P: mnt6::MNT6Config>(out: &mut Vec<Rel>, name: &'static str)
where
    P::Fp: OracleRepr,
{
    type Fq3<P> = ark_ff::Fp3<<P as mnt6::MNT6Config>::Fp3Config>;
    let tw = <Fq3<P> as OracleRepr>::tower();
    let d = MntData {
        name,
        k: 6,
        q: modulus_of::<P::Fp>(),
        r: modulus_of::<P::Fr>(),
        h1: big(<P::G1Config as CurveConfig>::COFACTOR),
        twist: P::TWIST.to_o(),
        twist_coeff_a: Some(P::TWIST_COEFF_A.to_o()),
        g1a: tw.from_base(&<P::G1Config as SWCurveConfig>::COEFF_A.to_o()),
        g1b: tw.from_base(&<P::G1Config as SWCurveConfig>::COEFF_B.to_o()),
        g2a: <P::G2Config as SWCurveConfig>::COEFF_A.to_o(),
        g2b: <P::G2Config as SWCurveConfig>::COEFF_B.to_o(),
        ate_be: P::ATE_LOOP_COUNT.to_vec(),
        ate_neg: P::ATE_IS_LOOP_COUNT_NEG,
        ate_is_trace_minus_one: true,
        w1: big(P::FINAL_EXPONENT_LAST_CHUNK_1.as_ref()),
        w0: big(P::FINAL_EXPONENT_LAST_CHUNK_ABS_OF_W0.as_ref()),
        w0_neg: P::FINAL_EXPONENT_LAST_CHUNK_W0_IS_NEG,
        tw,
    };
    mnt_rels(out, d);
}

pub fn mnt_rels(out: &mut Vec<Rel>, d: MntData) {
    let name = d.name;
    let d = Arc::new(d);
    out.push(identities(format!("mnt.params/{}", name), 4, move |t, o| {
        let tw = &d.tw;
        let i = t.below(4);
        o.nt(i != 2 || d.ate_is_trace_minus_one);
        match i {
            0 => {
                // the twist element is the generator X of the quadratic / cubic extension; G2 lives on
                // y^2 = x^3 + a twist^2 x + b twist^3
                let want = match tw {
                    Tower::Ext { deg, base, .. } => {
                        let mut v = vec![base.zero(); *deg];
                        v[1] = base.one();
                        Elem::E(v)
                    },
                    _ => unreachable!(),
                };
                o.show(|| format!("{}: TWIST = {}", name, show_elem(tw, &d.twist)));
                check(d.twist == want, "mnt.TWIST", || format!("TWIST = {} expected the extension generator (0, 1[, 0])", show_elem(tw, &d.twist)))
            },
            1 => {
                let t2 = tw.mul(&d.twist, &d.twist);
                let t3 = tw.mul(&t2, &d.twist);
                let wa = tw.mul(&d.g1a, &t2);
                let wb = tw.mul(&d.g1b, &t3);
                o.show(|| format!("{}: G2 a' = a twist^2 = {}, b' = b twist^3 = {}", name, show_elem(tw, &wa), show_elem(tw, &wb)));
                if let Some(tca) = &d.twist_coeff_a {
                    check(*tca == wa, "mnt.TWIST_COEFF_A", || format!("TWIST_COEFF_A = {} expected a*twist^2 = {}", show_elem(tw, tca), show_elem(tw, &wa)))?;
                }
                check(d.g2a == wa, "mnt.g2.COEFF_A", || format!("G2 COEFF_A = {} expected a*twist^2 = {}", show_elem(tw, &d.g2a), show_elem(tw, &wa)))?;
                check(d.g2b == wb, "mnt.g2.COEFF_B", || format!("G2 COEFF_B = {} expected b*twist^3 = {}", show_elem(tw, &d.g2b), show_elem(tw, &wb)))
            },
            2 => {
                // ate pairing: Miller loop length T = t - 1 where t = q + 1 - #E(F_q) is the trace of Frobenius
                if !d.ate_is_trace_minus_one {
                    o.class("ate-loop-count-without-documented-closed-form");
                    o.show(|| format!("{}: ATE_LOOP_COUNT has no documented closed form (covered by pairing.bilinear)", name));
                    return Ok(());
                }
                let tr_m1 = BigInt::from(d.q.clone()) - BigInt::from(&d.h1 * &d.r);
                let got = signed_digits_be(&d.ate_be) * if d.ate_neg { -1i32 } else { 1i32 };
                o.show(|| format!("{}: ATE_LOOP_COUNT = {} = t - 1", name, got));
                check(d.ate_be.iter().all(|x| (-1..=1).contains(x)), "mnt.ATE_LOOP_COUNT.digits", || "digit outside {-1,0,1}".into())?;
                check(got == tr_m1, "mnt.ATE_LOOP_COUNT", || format!("signed digits (MSB first) evaluate to {} expected trace - 1 = {}", got, tr_m1))
            },
            _ => {
                // first chunk is (q^(k/2) - 1) [(q + 1) for k = 6]; the last chunk w1*q + w0 must be Phi_k(q) / r
                let q = BigInt::from(d.q.clone());
                let phi: BigInt = if d.k == 4 { &q * &q + 1i32 } else { &q * &q - &q + 1i32 };
                let rr = BigInt::from(d.r.clone());
                check((&phi % &rr).is_zero(), "mnt.embedding-degree", || format!("r does not divide Phi_{}(q)", d.k))?;
                let want = &phi / &rr;
                let got = BigInt::from(d.w1.clone()) * &q + sbig(d.w0_neg, &d.w0);
                o.show(|| format!("{}: w1*q + w0 = Phi_{}(q)/r = {}", name, d.k, want));
                check(got == want, "mnt.FINAL_EXPONENT_LAST_CHUNK", || format!("w1*q + w0 = {} expected Phi_{}(q)/r = {}", got, d.k, want))
            },
        }
    }));
}

// ------------------------------------------------------------------------------------------------
// bilinearity sanity (covers constants without a documented closed form: loop counts, H_T/H_Y, ...)
// ------------------------------------------------------------------------------------------------

pub fn bilinear<E: Pairing>(out: &mut Vec<Rel>, name: &'static str, tier: Tier, cases: u32) {
    let r = big(<E::ScalarField as PrimeField>::MODULUS.as_ref());
    let words = 2 * (r.to_u64_digits().len() + 2);
    out.push(
        Rel::new(format!("pairing.bilinear/{}", name), tier.pick(cases, cases * 8), words, move |t, o| {
            let a = big_below(t, &r);
            let b = big_below(t, &r);
            o.nt(!a.is_zero() && !b.is_zero());
            o.show(|| format!("{}: e(a G1, b G2) = e(G1, G2)^(ab), a = {}, b = {}", name, hx(&a), hx(&b)));
            let g1 = E::G1Affine::generator();
            let g2 = E::G2Affine::generator();
            let base = E::pairing(g1, g2).0;
            check(!base.is_one(), "pairing.degenerate", || "e(G1, G2) = 1".into())?;
            check(base.pow(r.to_u64_digits()).is_one(), "pairing.order", || "e(G1, G2)^r != 1".into())?;
            let pa = g1.into_group().mul_bigint(a.to_u64_digits()).into_affine();
            let pb = g2.into_group().mul_bigint(b.to_u64_digits()).into_affine();
            let lhs = E::pairing(pa, pb).0;
            let e = (&a * &b) % &r;
            let rhs = base.pow(e.to_u64_digits());
            check(lhs == rhs, "pairing.bilinear", || format!("e(aG1, bG2) != e(G1,G2)^(ab) for a = {}, b = {}", hx(&a), hx(&b)))
        })
        .shrink_iters(16),
    );
}

