//! C18 — container and derived serializations round-trip, size exactly, fail cleanly.
use ark_ff::BigInt;
use ark_serialize::{
    CanonicalDeserialize, CanonicalSerialize, Compress, CompressedChecked, CompressedUnchecked, Read, SerializationError,
    UncompressedChecked, UncompressedUnchecked, Validate,
};
use num_bigint::BigUint;
use std::borrow::Cow;
use std::collections::{BTreeMap, BTreeSet, LinkedList, VecDeque};
use std::marker::PhantomData;
use std::rc::Rc;
use std::sync::Arc;
use vh_core::engine::{no_panic, Obs, PropSpec, Rel, Tape, Tier, R};
use vh_core::{ensure, ensure_eq};

mod hv;
mod io;
use hv::*;

// ---------------------------------------------------------------------------------------
// helpers
// ---------------------------------------------------------------------------------------

/// reader over a byte slice that remembers how far it was read
struct Cur<'a> {
    d: &'a [u8],
    pos: usize,
}
impl<'a> Cur<'a> {
    fn new(d: &'a [u8]) -> Self {
        Cur { d, pos: 0 }
    }
}
impl Read for Cur<'_> {
    fn read(&mut self, buf: &mut [u8]) -> std::io::Result<usize> {
        let n = buf.len().min(self.d.len() - self.pos);
        buf[..n].copy_from_slice(&self.d[self.pos..self.pos + n]);
        self.pos += n;
        Ok(n)
    }
}

fn cname(c: Compress) -> &'static str {
    match c {
        Compress::Yes => "compressed",
        Compress::No => "uncompressed",
    }
}
fn vname(v: Validate) -> &'static str {
    match v {
        Validate::Yes => "checked",
        Validate::No => "unchecked",
    }
}

/// digit runs of more than 24 characters (coordinates of curve points) are abbreviated
fn squash_digits(s: &str) -> String {
    let mut out = String::with_capacity(s.len());
    let mut run = String::new();
    let flush = |run: &mut String, out: &mut String| {
        if run.len() > 24 {
            out.push_str(&run[..5]);
            out.push('…');
            out.push_str(&run[run.len() - 3..]);
        } else {
            out.push_str(run);
        }
        run.clear();
    };
    for ch in s.chars() {
        if ch.is_ascii_digit() {
            run.push(ch);
        } else {
            flush(&mut run, &mut out);
            out.push(ch);
        }
    }
    flush(&mut run, &mut out);
    out
}

fn short<T: std::fmt::Debug>(v: &T) -> String {
    let s = squash_digits(&format!("{:?}", v));
    if s.len() > 240 {
        let cut = s.char_indices().take_while(|(i, _)| *i < 240).last().map(|x| x.0).unwrap_or(0);
        format!("{}… ({} chars)", &s[..cut], s.len())
    } else {
        s
    }
}

fn hexs(b: &[u8]) -> String {
    let mut s: String = b.iter().take(48).map(|x| format!("{:02x}", x)).collect();
    if b.len() > 48 {
        s.push_str(&format!("…({} bytes)", b.len()));
    }
    s
}

fn ser<T: CanonicalSerialize>(v: &T, c: Compress, what: &str) -> Result<Vec<u8>, vh_core::Fail> {
    let mut b = Vec::new();
    match no_panic(what, || v.serialize_with_mode(&mut b, c))? {
        Ok(()) => Ok(b),
        Err(e) => Err(vh_core::Fail { sig: format!("{}.err", what), msg: format!("{} failed: {}", what, e) }),
    }
}

fn de<T: CanonicalDeserialize>(b: &[u8], c: Compress, v: Validate) -> Result<(Result<T, SerializationError>, usize), vh_core::Fail> {
    let mut cur = Cur::new(b);
    let r = no_panic("deserialize", || T::deserialize_with_mode(&mut cur, c, v))?;
    Ok((r, cur.pos))
}

const MODES: [(Compress, Validate); 4] = [(Compress::Yes, Validate::Yes), (Compress::Yes, Validate::No), (Compress::No, Validate::Yes), (Compress::No, Validate::No)];

macro_rules! call {
    ($f:ident, $ty:ty, $name:expr, ($($a:expr),*)) => {
        $f::<$ty>($name, $($a),*)
    };
}

/// choose one of a list of types with the tape and call `$f::<Type>("Type", args..)`
macro_rules! dispatch {
    ($t:expr, $f:ident $args:tt ; $($ty:ty),+ $(,)?) => {{
        let names: &[&'static str] = &[$(stringify!($ty)),+];
        let k = $t.idx(names.len());
        let mut i = 0usize;
        $(
            if i == k {
                return call!($f, $ty, names[k], $args);
            }
            i += 1;
        )+
        let _ = i;
        unreachable!()
    }};
}

fn stats(o: &mut Obs, g: &Gen<'_, '_>) {
    o.class_if(g.max_depth >= 2, "value-depth>=2");
    o.class_if(g.max_depth >= 3, "value-depth>=3");
    o.class_if(g.max_depth >= 4, "value-depth>=4");
    o.class_if(g.max_len >= 2, "container-len>=2");
    o.class_if(g.max_len >= 10_000, "container-len>=10^4");
    o.class_if(g.max_len >= 100_000, "container-len>=10^5");
    o.class_if(g.n_empty > 0, "has-empty-container");
    o.class_if(g.n_wrapped > 0, "has-wrapped-vecdeque");
    o.class_if(g.n_points > 0, "has-curve-point");
}

// ---------------------------------------------------------------------------------------
// round trip and size
// ---------------------------------------------------------------------------------------

fn roundtrip<T: Hv>(name: &'static str, t: &mut Tape<'_>, o: &mut Obs, large: bool) -> R {
    let mut g = Gen::new(t, 160);
    g.allow_large = large;
    o.class_if(T::POINTS, "type-with-curve-points");
    let v = T::gen(&mut g);
    let tail = g.t.idx(4);
    let pw = g.t.u64();
    stats(o, &g);
    o.nt(g.max_depth >= 2 || g.max_len >= 2);
    let (depth, len) = (g.max_depth, g.max_len);
    o.show(|| format!("{} = {} (depth {}, longest container {}, {} trailing bytes)", name, short(&v), depth, len, tail));
    o.evals(30);
    for c in [Compress::Yes, Compress::No] {
        let bytes = ser(&v, c, "serialize")?;
        let size = v.serialized_size(c);
        ensure!(size == bytes.len(), format!("size.{}", cname(c)), "{}: serialized_size({}) = {} but {} bytes were written; value {}", name, cname(c), size, bytes.len(), short(&v));
        let mut input = bytes.clone();
        input.extend(std::iter::repeat(0xA5u8).take(tail));
        for val in [Validate::Yes, Validate::No] {
            let (r, used) = de::<T>(&input, c, val)?;
            match r {
                Ok(w) => {
                    ensure!(w == v, format!("roundtrip.{}.{}", cname(c), vname(val)), "{}: got {} expected {}", name, short(&w), short(&v));
                    ensure!(used == bytes.len(), format!("consumed.{}", cname(c)), "{}: deserialization read {} bytes of a {}-byte encoding (followed by {} unrelated bytes)", name, used, bytes.len(), tail);
                },
                Err(e) => return vh_core::fail(format!("roundtrip.{}.{}.err", cname(c), vname(val)), format!("{}: deserialize(serialize(v)) failed with {} for v = {}; bytes {}", name, e, short(&v), hexs(&bytes))),
            }
        }
        // reference-like wrappers write the same bytes and report the same size
        let mut r = v.clone();
        let b_ref = ser(&&v, c, "serialize.ref")?;
        let s_ref = (&v).serialized_size(c);
        let (b_mut, s_mut) = {
            let m = &mut r;
            (ser(&m, c, "serialize.refmut")?, m.serialized_size(c))
        };
        let rc = Rc::new(v.clone());
        let arc = Arc::new(v.clone());
        let cow: Cow<'_, T> = Cow::Borrowed(&v);
        let wrappers: [(&str, Vec<u8>, usize); 5] = [
            ("&T", b_ref, s_ref),
            ("&mut T", b_mut, s_mut),
            ("Rc<T>", ser(&rc, c, "serialize.rc")?, rc.serialized_size(c)),
            ("Arc<T>", ser(&arc, c, "serialize.arc")?, arc.serialized_size(c)),
            ("Cow<T>", ser(&cow, c, "serialize.cow")?, cow.serialized_size(c)),
        ];
        for (w, b, s) in wrappers.iter() {
            ensure!(*b == bytes, "wrapper.bytes", "{}: {} serializes differently from T ({})", name, w, cname(c));
            ensure!(*s == bytes.len(), "wrapper.size", "{}: {} reports size {} for {} bytes", name, w, s, bytes.len());
        }
        let (ra, _) = de::<Arc<T>>(&bytes, c, Validate::Yes)?;
        ensure!(matches!(&ra, Ok(a) if **a == v), "roundtrip.arc", "{}: Arc<T> round trip gave {:?}", name, ra.map(|x| short(&x)));
        let (rc, _) = de::<Cow<'static, T>>(&bytes, c, Validate::Yes)?;
        ensure!(matches!(&rc, Ok(a) if **a == v), "roundtrip.cow", "{}: Cow<T> round trip gave {:?}", name, rc.map(|x| short(&x)));
    }
    // the convenience methods are the four mode combinations
    let bc = ser(&v, Compress::Yes, "serialize")?;
    let bu = ser(&v, Compress::No, "serialize")?;
    let mut x = Vec::new();
    v.serialize_compressed(&mut x).ok();
    ensure!(x == bc, "serialize_compressed", "{}: serialize_compressed differs from serialize_with_mode(Compress::Yes)", name);
    let mut x = Vec::new();
    v.serialize_uncompressed(&mut x).ok();
    ensure!(x == bu, "serialize_uncompressed", "{}: serialize_uncompressed differs from serialize_with_mode(Compress::No)", name);
    ensure_eq!(v.compressed_size(), bc.len(), "compressed_size");
    ensure_eq!(v.uncompressed_size(), bu.len(), "uncompressed_size");
    ensure!(matches!(T::deserialize_compressed(&bc[..]), Ok(w) if w == v), "deserialize_compressed", "{}: {}", name, short(&v));
    ensure!(matches!(T::deserialize_compressed_unchecked(&bc[..]), Ok(w) if w == v), "deserialize_compressed_unchecked", "{}: {}", name, short(&v));
    ensure!(matches!(T::deserialize_uncompressed(&bu[..]), Ok(w) if w == v), "deserialize_uncompressed", "{}: {}", name, short(&v));
    ensure!(matches!(T::deserialize_uncompressed_unchecked(&bu[..]), Ok(w) if w == v), "deserialize_uncompressed_unchecked", "{}: {}", name, short(&v));

    // the same value through other `Write` / `Read` implementations: a fixed buffer of exactly the advertised size, a
    // writer that accepts and a reader that delivers only a few bytes per call (pipe / socket semantics)
    let pat = io::pattern(pw);
    o.class_if(pw & 0xfff != 0, "io-pattern-mixed-chunks");
    for (c, bytes) in [(Compress::Yes, &bc), (Compress::No, &bu)] {
        let size = v.serialized_size(c);
        let mut buf = vec![0xA5u8; size];
        {
            let mut w: &mut [u8] = &mut buf[..];
            let r = no_panic("serialize.exact-buffer", || v.serialize_with_mode(&mut w, c))?;
            ensure!(r.is_ok(), format!("io.exact-buffer.{}", cname(c)), "{}: serializing into a buffer of serialized_size({}) = {} bytes failed: {:?}; value {}", name, cname(c), size, r.err().map(|e| e.to_string()), short(&v));
            ensure!(w.is_empty(), format!("io.exact-buffer.left.{}", cname(c)), "{}: {} of the advertised {} bytes were not written", name, w.len(), size);
        }
        ensure!(&buf == bytes, format!("io.exact-buffer.bytes.{}", cname(c)), "{}: a fixed buffer received {}, a Vec {}", name, hexs(&buf), hexs(bytes));
        let mut dw = io::DribbleW::new(pat);
        let r = no_panic("serialize.partial-writer", || v.serialize_with_mode(&mut dw, c))?;
        ensure!(r.is_ok() && &dw.out == bytes, format!("io.partial-writer.{}", cname(c)), "{}: a writer accepting {:?} bytes per call received {} ({:?}), a Vec {}", name, pat, hexs(&dw.out), r.err().map(|e| e.to_string()), hexs(bytes));
        let mut input = bytes.clone();
        input.extend_from_slice(&[0x5A; 3]);
        let mut rd = io::Dribble::new(&input, pat);
        let r = no_panic("deserialize.partial-reader", || T::deserialize_with_mode(&mut rd, c, Validate::Yes))?;
        ensure!(matches!(&r, Ok(w) if *w == v), format!("io.partial-reader.{}", cname(c)), "{}: {} delivered {:?} bytes per call gives {:?}, expected {}", name, hexs(bytes), pat, r.map(|x| short(&x)).map_err(|e| e.to_string()), short(&v));
        ensure!(rd.pos == bytes.len(), format!("io.partial-reader.consumed.{}", cname(c)), "{}: {} bytes consumed of a {}-byte encoding", name, rd.pos, bytes.len());
    }
    // "CanonicalSerialize induces a natural way to hash the corresponding value": the digest of the serialization
    {
        use ark_serialize::CanonicalSerializeHashExt;
        use sha2::{Digest, Sha256, Sha512};
        let h = no_panic("hash", || v.hash::<Sha256>())?;
        ensure!(h[..] == Sha256::digest(&bc)[..], "hash.compressed", "{}: hash::<Sha256>() is not the digest of the compressed serialization of {}", name, short(&v));
        let h = no_panic("hash_uncompressed", || v.hash_uncompressed::<Sha512>())?;
        ensure!(h[..] == Sha512::digest(&bu)[..], "hash.uncompressed", "{}: hash_uncompressed::<Sha512>() is not the digest of the uncompressed serialization of {}", name, short(&v));
    }
    Ok(())
}

/// One container of exactly `n` scalar elements (body expanded from one tape word): size, round trip in the four modes,
/// exact consumption. (The full battery of `roundtrip` would make ~40 passes over a megabyte.)
fn cap_rt<T: Hv>(name: &'static str, t: &mut Tape<'_>, o: &mut Obs, n: usize) -> R {
    let mut g = Gen::new(t, 160);
    g.allow_large = true;
    g.large_n = Some(n);
    let v = T::gen(&mut g);
    let tail = g.t.idx(4);
    stats(o, &g);
    o.nt(g.max_len >= 100_000);
    let len = g.max_len;
    o.show(|| format!("{} with a container of {} elements (requested {})", name, len, n));
    o.evals(6);
    for c in [Compress::Yes, Compress::No] {
        let bytes = ser(&v, c, "serialize")?;
        let size = v.serialized_size(c);
        ensure!(size == bytes.len(), format!("size.{}", cname(c)), "{}: serialized_size({}) = {} but {} bytes were written ({} elements)", name, cname(c), size, bytes.len(), len);
        let mut input = bytes.clone();
        input.extend(std::iter::repeat(0xA5u8).take(tail));
        for val in [Validate::Yes, Validate::No] {
            let (r, used) = de::<T>(&input, c, val)?;
            match r {
                Ok(w) => {
                    ensure!(w == v, format!("roundtrip.{}.{}", cname(c), vname(val)), "{}: a container of {} elements reads back differently: {} expected {}", name, len, short(&w), short(&v));
                    ensure!(used == bytes.len(), format!("consumed.{}", cname(c)), "{}: deserialization read {} bytes of a {}-byte encoding", name, used, bytes.len());
                },
                Err(e) => return vh_core::fail(format!("roundtrip.{}.{}.err", cname(c), vname(val)), format!("{}: deserialize(serialize(v)) failed with {} for a container of {} elements", name, e, len)),
            }
        }
    }
    Ok(())
}

/// slices: `[T]` and `&[T]` serialize like the `Vec<T>` with the same elements (which is how they are read back)
fn slice_rt<T: Hv>(name: &'static str, t: &mut Tape<'_>, o: &mut Obs) -> R {
    let mut g = Gen::new(t, 60);
    let v = <Vec<T> as Hv>::gen(&mut g);
    let (from, to) = {
        let a = g.t.idx(v.len() + 1);
        let b = g.t.idx(v.len() + 1);
        (a.min(b), a.max(b))
    };
    stats(o, &g);
    // a sub-slice that does not start at the beginning of the allocation, or the whole vector
    let whole = g.t.chance(1, 3);
    let sl: &[T] = if whole { &v[..] } else { &v[from..to] };
    let want: Vec<T> = sl.to_vec();
    o.class(if whole { "whole-slice" } else { "sub-slice" });
    o.class_if(sl.is_empty(), "empty-slice");
    o.nt(sl.len() >= 2);
    o.show(|| format!("&[{}] = {}", name, short(&want)));
    o.evals(12);
    for c in [Compress::Yes, Compress::No] {
        // the unsized `[T]` impl and the `&[T]` impl
        let mut b1 = Vec::new();
        let r1 = no_panic("serialize.slice", || <[T] as CanonicalSerialize>::serialize_with_mode(sl, &mut b1, c))?;
        let mut b2 = Vec::new();
        let r2 = no_panic("serialize.slice-ref", || <&[T] as CanonicalSerialize>::serialize_with_mode(&sl, &mut b2, c))?;
        ensure!(r1.is_ok() && r2.is_ok(), "slice.serialize.err", "[{}]: {:?} {:?}", name, r1.err().map(|e| e.to_string()), r2.err().map(|e| e.to_string()));
        let s1 = <[T] as CanonicalSerialize>::serialized_size(sl, c);
        let s2 = <&[T] as CanonicalSerialize>::serialized_size(&sl, c);
        ensure!(s1 == b1.len(), format!("slice.size.{}", cname(c)), "[{}]: serialized_size({}) = {} but {} bytes were written; {}", name, cname(c), s1, b1.len(), short(&want));
        ensure!(s2 == b2.len(), format!("slice-ref.size.{}", cname(c)), "&[{}]: serialized_size({}) = {} but {} bytes were written; {}", name, cname(c), s2, b2.len(), short(&want));
        for (what, b) in [("slice", &b1), ("slice-ref", &b2)] {
            for val in [Validate::Yes, Validate::No] {
                let (r, used) = de::<Vec<T>>(b, c, val)?;
                ensure!(matches!(&r, Ok(w) if *w == want) && used == b.len(), format!("{}.roundtrip.{}.{}", what, cname(c), vname(val)), "[{}]: {} read back as Vec gives {:?} ({} of {} bytes read), expected {}", name, hexs(b), r.map(|x| short(&x)).map_err(|e| e.to_string()), used, b.len(), short(&want));
            }
        }
        // compressed_size / uncompressed_size and the convenience writers on the unsized type
        let mut b3 = Vec::new();
        let (r3, adv) = if c == Compress::Yes { (sl.serialize_compressed(&mut b3), sl.compressed_size()) } else { (sl.serialize_uncompressed(&mut b3), sl.uncompressed_size()) };
        ensure!(r3.is_ok() && b3.len() == adv, format!("slice.convenience.size.{}", cname(c)), "[{}]: serialize_{} wrote {} bytes, {}_size() = {}", name, cname(c), b3.len(), cname(c), adv);
        let (r, _) = de::<Vec<T>>(&b3, c, Validate::No)?;
        ensure!(matches!(&r, Ok(w) if *w == want), format!("slice.convenience.roundtrip.{}", cname(c)), "[{}]: serialize_{} of {} reads back differently", name, cname(c), short(&want));
    }
    Ok(())
}

/// mode-pinning wrappers around a value: whatever mode is requested, the pinned one is used; serde goes through base64
fn pinned_rt<T: Hv>(name: &'static str, t: &mut Tape<'_>, o: &mut Obs) -> R {
    let mut g = Gen::new(t, 60);
    let v = T::gen(&mut g);
    stats(o, &g);
    o.nt(g.max_depth >= 2 || g.max_len >= 2);
    o.show(|| format!("pinned wrappers and serde_json around {} = {}", name, short(&v)));
    o.evals(40);
    let bc = ser(&v, Compress::Yes, "serialize")?;
    let bu = ser(&v, Compress::No, "serialize")?;
    // mode-pinning wrappers: whatever mode is requested, the pinned one is used
    macro_rules! pinned {
        ($W:ident, $pc:expr, $label:expr) => {{
            let w = $W(v.clone());
            let want = if $pc == Compress::Yes { &bc } else { &bu };
            for (c, val) in MODES {
                let b = ser(&w, c, "serialize.pinned")?;
                ensure!(&b == want, concat!("pinned.bytes.", $label), "{}: {}<T> asked for {} wrote {} bytes, the pinned encoding has {}", name, $label, cname(c), b.len(), want.len());
                ensure!(w.serialized_size(c) == b.len(), concat!("pinned.size.", $label), "{}: {}<T>.serialized_size({}) = {} for {} bytes", name, $label, cname(c), w.serialized_size(c), b.len());
                let (r, used) = de::<$W<T>>(&b, c, val)?;
                ensure!(matches!(&r, Ok(x) if *x == w) && used == b.len(), concat!("pinned.roundtrip.", $label), "{}: {}<T> round trip ({}, {}) failed: {:?}", name, $label, cname(c), vname(val), r.map(|x| short(&x)));
            }
            // serde: base64 of the pinned encoding
            let js = match no_panic("serde_json.to_string", || serde_json::to_string(&w))? {
                Ok(s) => s,
                Err(e) => return vh_core::fail(concat!("serde.ser.", $label), format!("{}: serde_json::to_string failed: {}", name, e)),
            };
            match no_panic("serde_json.from_str", || serde_json::from_str::<$W<T>>(&js))? {
                Ok(x) => ensure!(x == w, concat!("serde.roundtrip.", $label), "{}: serde_json round trip of {}<T> gave {} expected {}", name, $label, short(&x), short(&w)),
                Err(e) => return vh_core::fail(concat!("serde.de.", $label), format!("{}: serde_json::from_str failed on {}: {}", name, &js[..js.len().min(80)], e)),
            }
        }};
    }
    pinned!(CompressedChecked, Compress::Yes, "CompressedChecked");
    pinned!(CompressedUnchecked, Compress::Yes, "CompressedUnchecked");
    pinned!(UncompressedChecked, Compress::No, "UncompressedChecked");
    pinned!(UncompressedUnchecked, Compress::No, "UncompressedUnchecked");
    // through serde, too, each wrapper uses its own compression: wrappers that pin the same compression produce the same
    // document, wrappers that pin different compressions produce different documents exactly when the two encodings
    // of the value differ, and a document can be read through the sibling wrapper that pins the same compression
    {
        let js = |r: Result<String, serde_json::Error>| r.map_err(|e| vh_core::Fail { sig: "serde.ser".into(), msg: format!("{}: serde_json::to_string failed: {}", name, e) });
        let jcc = js(serde_json::to_string(&CompressedChecked(v.clone())))?;
        let jcu = js(serde_json::to_string(&CompressedUnchecked(v.clone())))?;
        let juc = js(serde_json::to_string(&UncompressedChecked(v.clone())))?;
        let juu = js(serde_json::to_string(&UncompressedUnchecked(v.clone())))?;
        o.class_if(bc != bu, "serde:encoding-depends-on-compression");
        ensure!(jcc == jcu, "serde.pinned.compressed-siblings", "{}: CompressedChecked and CompressedUnchecked produce different serde documents for {}", name, short(&v));
        ensure!(juc == juu, "serde.pinned.uncompressed-siblings", "{}: UncompressedChecked and UncompressedUnchecked produce different serde documents for {}", name, short(&v));
        ensure!((jcc == juc) == (bc == bu), "serde.pinned.compression", "{}: compressed and uncompressed encodings {} but the serde documents of Compressed*/Uncompressed* {}; value {}", name, if bc == bu { "are equal" } else { "differ" }, if jcc == juc { "are equal" } else { "differ" }, short(&v));
        let r = no_panic("serde_json.from_str", || serde_json::from_str::<CompressedUnchecked<T>>(&jcc))?;
        ensure!(matches!(&r, Ok(x) if x.0 == v), "serde.pinned.cross.compressed", "{}: the document of CompressedChecked read as CompressedUnchecked gives {:?}", name, r.map(|x| short(&x)).map_err(|e| e.to_string()));
        let r = no_panic("serde_json.from_str", || serde_json::from_str::<UncompressedChecked<T>>(&juu))?;
        ensure!(matches!(&r, Ok(x) if x.0 == v), "serde.pinned.cross.uncompressed", "{}: the document of UncompressedUnchecked read as UncompressedChecked gives {:?}", name, r.map(|x| short(&x)).map_err(|e| e.to_string()));
        // Deref / DerefMut / From of the wrappers
        let mut w: UncompressedChecked<T> = v.clone().into();
        ensure!(*w == v && *std::ops::DerefMut::deref_mut(&mut w) == v && CompressedChecked::from(v.clone()).0 == v, "pinned.deref", "{}: Deref/From of a wrapper changes the value", name);
    }
    // the serde `with`-modules for vectors of canonical values
    let vs: Vec<T> = vec![v.clone(); g.t.idx(4)];
    macro_rules! vecmod {
        ($m:ident) => {{
            let mut out = Vec::new();
            let mut sr = serde_json::Serializer::new(&mut out);
            if let Err(e) = no_panic("serde.vecmod.serialize", || ark_serialize::$m::serialize(&vs, &mut sr))? {
                return vh_core::fail(concat!("serde.vecmod.ser.", stringify!($m)), format!("{}: {}", name, e));
            }
            let mut dr = serde_json::Deserializer::from_slice(&out);
            match no_panic("serde.vecmod.deserialize", || ark_serialize::$m::deserialize::<_, T>(&mut dr))? {
                Ok(back) => ensure!(back == vs, concat!("serde.vecmod.roundtrip.", stringify!($m)), "{}: {} elements came back as {}", name, vs.len(), short(&back)),
                Err(e) => return vh_core::fail(concat!("serde.vecmod.de.", stringify!($m)), format!("{}: {}", name, e)),
            }
        }};
    }
    vecmod!(vec_compressed_checked);
    vecmod!(vec_compressed_unchecked);
    vecmod!(vec_uncompressed_checked);
    vecmod!(vec_uncompressed_unchecked);
    Ok(())
}

// ---------------------------------------------------------------------------------------
// validation: a value with a point outside the subgroup is rejected exactly when validation is on
// ---------------------------------------------------------------------------------------

fn validity<T: Hv>(name: &'static str, t: &mut Tape<'_>, o: &mut Obs) -> R {
    let mut g = Gen::new(t, 40);
    let bp = g.t.weighted(&[2, 5, 3, 1]);
    g.bad_points = [0u64, 2, 6, 16][bp];
    let v = T::gen(&mut g);
    let nbad = g.n_bad;
    let npts = g.n_points;
    g.bad_points = 0;
    let other = T::gen(&mut g);
    stats(o, &g);
    let valid = v.ok();
    o.show(|| format!("{} with {} curve points, {} outside the subgroup: {}", name, npts, nbad, short(&v)));
    o.class_if(!valid, "contains-invalid-point");
    o.class_if(valid && npts > 0, "all-points-valid");
    o.class_if(npts == 0, "no-point-in-value");
    o.nt(!valid && (g.max_depth >= 2 || g.max_len >= 2 || npts >= 2));
    o.evals(14);
    // (an inserted invalid point can disappear again when a map key repeats, so only one direction is a harness invariant)
    assert!(valid || nbad > 0, "harness: value is invalid although no invalid point was inserted");
    // derived / container `Valid`
    let chk = no_panic("check", || v.check())?;
    ensure!(chk.is_ok() == valid, "check", "{}: check() = {:?} but the value {} a point outside the subgroup: {}", name, chk.err().map(|e| e.to_string()), if valid { "does not contain" } else { "contains" }, short(&v));
    let pair = [other.clone(), v.clone(), other.clone()];
    let bc = no_panic("batch_check", || T::batch_check(pair.iter()))?;
    ensure!(bc.is_ok() == valid, "batch_check", "{}: batch_check over [valid, v, valid] = {:?}, v is {}", name, bc.err().map(|e| e.to_string()), if valid { "valid" } else { "invalid" });
    let bc = no_panic("batch_check", || T::batch_check([other.clone()].iter()))?;
    ensure!(bc.is_ok(), "batch_check.valid", "{}: batch_check over a valid value failed", name);
    for (c, val) in MODES {
        let bytes = ser(&v, c, "serialize")?;
        ensure_eq!(v.serialized_size(c), bytes.len(), format!("size.{}", cname(c)));
        let (r, _) = de::<T>(&bytes, c, val)?;
        let expect_ok = valid || val == Validate::No;
        match r {
            Ok(w) => {
                ensure!(expect_ok, format!("validate.accepted.{}", cname(c)), "{}: deserialization with validation accepted a value with a point outside the subgroup: {}", name, short(&v));
                ensure!(w == v, format!("roundtrip.{}.{}", cname(c), vname(val)), "{}: got {} expected {}", name, short(&w), short(&v));
            },
            Err(e) => ensure!(!expect_ok, format!("validate.rejected.{}.{}", cname(c), vname(val)), "{}: deserialize ({}, {}) failed with {} on {} value {}", name, cname(c), vname(val), e, if valid { "the valid" } else { "the invalid (validation is off)" }, short(&v)),
        }
        // pinned wrappers at top level: the pinned validation decides, not the requested one
        let pc = ser(&v, Compress::Yes, "serialize")?;
        let pu = ser(&v, Compress::No, "serialize")?;
        let r1 = de::<CompressedChecked<T>>(&pc, c, val)?.0;
        let r2 = de::<CompressedUnchecked<T>>(&pc, c, val)?.0;
        let r3 = de::<UncompressedChecked<T>>(&pu, c, val)?.0;
        let r4 = de::<UncompressedUnchecked<T>>(&pu, c, val)?.0;
        ensure!(r1.is_ok() == valid, "pinned.CompressedChecked", "{}: CompressedChecked<T>::deserialize({}, {}) ok={} for a value with valid={}", name, cname(c), vname(val), r1.is_ok(), valid);
        ensure!(r3.is_ok() == valid, "pinned.UncompressedChecked", "{}: UncompressedChecked<T>::deserialize({}, {}) ok={} for a value with valid={}", name, cname(c), vname(val), r3.is_ok(), valid);
        ensure!(matches!(&r2, Ok(x) if x.0 == v), "pinned.CompressedUnchecked", "{}: CompressedUnchecked<T>::deserialize({}, {}) must skip validation", name, cname(c), vname(val));
        ensure!(matches!(&r4, Ok(x) if x.0 == v), "pinned.UncompressedUnchecked", "{}: UncompressedUnchecked<T>::deserialize({}, {}) must skip validation", name, cname(c), vname(val));
    }
    // the same through serde: a document written by an ...Unchecked wrapper (writing never validates) is accepted by the
    // ...Checked sibling exactly when the value is valid, and by the ...Unchecked wrapper always
    {
        let jc = serde_json::to_string(&CompressedUnchecked(v.clone())).map_err(|e| vh_core::Fail { sig: "serde.ser".into(), msg: e.to_string() })?;
        let ju = serde_json::to_string(&UncompressedUnchecked(v.clone())).map_err(|e| vh_core::Fail { sig: "serde.ser".into(), msg: e.to_string() })?;
        let r1 = no_panic("serde_json.from_str", || serde_json::from_str::<CompressedChecked<T>>(&jc))?;
        let r2 = no_panic("serde_json.from_str", || serde_json::from_str::<CompressedUnchecked<T>>(&jc))?;
        let r3 = no_panic("serde_json.from_str", || serde_json::from_str::<UncompressedChecked<T>>(&ju))?;
        let r4 = no_panic("serde_json.from_str", || serde_json::from_str::<UncompressedUnchecked<T>>(&ju))?;
        ensure!(r1.is_ok() == valid, "serde.validate.CompressedChecked", "{}: serde deserialization of CompressedChecked<T> ok={} for a value with valid={}: {}", name, r1.is_ok(), valid, short(&v));
        ensure!(r3.is_ok() == valid, "serde.validate.UncompressedChecked", "{}: serde deserialization of UncompressedChecked<T> ok={} for a value with valid={}: {}", name, r3.is_ok(), valid, short(&v));
        ensure!(matches!(&r2, Ok(x) if x.0 == v), "serde.validate.CompressedUnchecked", "{}: serde deserialization of CompressedUnchecked<T> must skip validation: {:?}", name, r2.map(|x| short(&x)).map_err(|e| e.to_string()));
        ensure!(matches!(&r4, Ok(x) if x.0 == v), "serde.validate.UncompressedUnchecked", "{}: serde deserialization of UncompressedUnchecked<T> must skip validation: {:?}", name, r4.map(|x| short(&x)).map_err(|e| e.to_string()));
    }
    Ok(())
}

// ---------------------------------------------------------------------------------------
// hostile bytes
// ---------------------------------------------------------------------------------------

/// Feed `input`. `must_err`: the input is malformed for certain (truncated, bad boolean, bad UTF-8, length prefix
/// beyond the input), so `Ok` is a violation. Otherwise `Ok(w)` is acceptable only if the bytes read are an encoding of
/// `w`: for types whose deserializer accepts nothing but canonical encodings the re-serialization must equal the bytes
/// read; in every case `w` must round-trip and size correctly.
fn attempt<T: Hv>(name: &str, input: &[u8], c: Compress, val: Validate, must_err: bool, kind: &str) -> R {
    let mut cur = Cur::new(input);
    let r = no_panic(kind, || T::deserialize_with_mode(&mut cur, c, val))?;
    let used = cur.pos;
    match r {
        Err(_) => Ok(()),
        Ok(w) => {
            ensure!(!must_err, format!("{}.accepted", kind), "{}: malformed input ({}) was accepted ({}, {}): {} -> {}", name, kind, cname(c), vname(val), hexs(input), short(&w));
            let re = ser(&w, c, "reserialize")?;
            ensure!(w.serialized_size(c) == re.len(), format!("{}.size", kind), "{}: value parsed from hostile bytes reports size {} but writes {}", name, w.serialized_size(c), re.len());
            if T::CANON {
                ensure!(re[..] == input[..used], format!("{}.noncanonical", kind), "{}: accepted {} ({} bytes read) but the value {} serializes as {}", name, hexs(&input[..used]), used, short(&w), hexs(&re));
            }
            let (r2, _) = de::<T>(&re, c, Validate::No)?;
            ensure!(matches!(&r2, Ok(x) if *x == w), format!("{}.unstable", kind), "{}: the value parsed from hostile bytes does not round-trip: {}", name, short(&w));
            Ok(())
        },
    }
}

fn hostile<T: Hv>(name: &'static str, t: &mut Tape<'_>, o: &mut Obs) -> R {
    assert!(T::SAFE, "{} must not be used with hostile length prefixes", name);
    let mut g = Gen::new(t, 24);
    let v = T::gen(&mut g);
    let t = g.t;
    let (c, val) = MODES[t.idx(4)];
    let bytes = ser(&v, c, "serialize")?;
    let mut m = Enc::default();
    v.enc(c, &mut m);
    let model_ok = m.b == bytes;
    o.class(if model_ok { "format-model-agrees" } else { "format-model-DISAGREES" });
    let has_utf8 = m.strs.iter().any(|r| r.1 > 0);
    // only kinds that have a target in this encoding (positions come from the model; without an agreeing model only
    // truncation, uniform bytes and blind mutation are possible)
    let weights: [u32; 6] = [
        if bytes.is_empty() { 0 } else { 3 },
        if model_ok && !m.bools.is_empty() { 4 } else { 0 },
        if model_ok && has_utf8 { 4 } else { 0 },
        if model_ok && !m.lens.is_empty() { 6 } else { 0 },
        3,
        3,
    ];
    let kind = t.weighted(&weights);
    let l = bytes.len();
    match kind {
        0 => {
            // truncated at every position (for long encodings: all positions next to a mark and 64 others)
            let cuts: Vec<usize> = if l <= 160 {
                (0..l).collect()
            } else {
                let mut c: Vec<usize> = (0..64).map(|_| t.idx(l)).collect();
                for (p, _) in m.lens.iter().take(40) {
                    c.extend([*p, p + 1, p + 7, p + 8].into_iter().filter(|x| *x < l));
                }
                c.push(l - 1);
                c
            };
            o.class("hostile-truncated");
            o.nt(!m.lens.is_empty() || (!cuts.is_empty() && l >= 8));
            o.show(|| format!("{} ({}, {}) {} -> encoding of {} bytes truncated at {} positions", name, cname(c), vname(val), short(&v), l, cuts.len()));
            o.evals(cuts.len() as u64);
            for cut in cuts {
                attempt::<T>(name, &bytes[..cut], c, val, true, "truncated")?;
            }
        },
        1 => {
            o.class("hostile-bad-bool");
            o.nt(!m.bools.is_empty());
            o.show(|| format!("{} ({}, {}) {} -> {} boolean bytes set to values > 1", name, cname(c), vname(val), short(&v), m.bools.len()));
            for p in m.bools.iter().take(24) {
                let bad = [2u8, 3, 0x80, 0xff, 0x10, (t.below(254) + 2) as u8][t.idx(6)];
                let mut b = bytes.clone();
                b[*p] = bad;
                attempt::<T>(name, &b, c, val, true, "bad-bool")?;
            }
        },
        2 => {
            let regions: Vec<(usize, usize)> = m.strs.iter().cloned().filter(|r| r.1 > 0).collect();
            o.class("hostile-bad-utf8");
            o.nt(!regions.is_empty());
            o.show(|| format!("{} ({}, {}) {} -> invalid UTF-8 in {} strings", name, cname(c), vname(val), short(&v), regions.len()));
            for (off, len) in regions.iter().take(16) {
                // bytes that never occur in UTF-8
                let bad = [0xffu8, 0xfe, 0xc0, 0xc1, 0xf8, 0xf5][t.idx(6)];
                let mut b = bytes.clone();
                b[off + t.idx(*len)] = bad;
                attempt::<T>(name, &b, c, val, true, "bad-utf8")?;
            }
        },
        3 => {
            o.class("hostile-length-prefix");
            o.nt(!m.lens.is_empty());
            o.show(|| format!("{} ({}, {}) {} -> each of {} length prefixes replaced by n+1, 2^32, 2^40, 2^62-1, 2^64-1, …", name, cname(c), vname(val), short(&v), m.lens.len()));
            o.evals(7 * m.lens.len().min(24) as u64);
            for (i, (p, n)) in m.lens.iter().enumerate().take(24) {
                o.class_if(i > 0, "hostile-length-prefix-nested");
                let huge = [1u64 << 32, 1 << 40, (1 << 62) - 1, u64::MAX, 1 << 63, (1 << 61) + 1, n + (1 << 32)];
                for h in huge {
                    let mut b = bytes.clone();
                    b[*p..*p + 8].copy_from_slice(&h.to_le_bytes());
                    // more elements than input bytes, each element at least one byte long: cannot be satisfied
                    attempt::<T>(name, &b, c, val, true, "length-huge")?;
                }
                let mut b = bytes.clone();
                b[*p..*p + 8].copy_from_slice(&(n + 1).to_le_bytes());
                attempt::<T>(name, &b, c, val, false, "length-plus-1")?;
                if *n > 0 {
                    let mut b = bytes.clone();
                    b[*p..*p + 8].copy_from_slice(&(n - 1).to_le_bytes());
                    attempt::<T>(name, &b, c, val, false, "length-minus-1")?;
                }
            }
        },
        4 => {
            // uniform bytes, optionally behind an "interesting" first word (the outermost length prefix, if any)
            let n = t.idx(96);
            let mut b = Vec::new();
            if t.bool() {
                b.extend_from_slice(&t.edge_u64().to_le_bytes());
            }
            b.extend(t.bytes(n));
            o.class("hostile-uniform");
            o.nt(T::MIN >= 8 && b.len() >= 8);
            o.show(|| format!("{} ({}, {}) uniform bytes {}", name, cname(c), vname(val), hexs(&b)));
            attempt::<T>(name, &b, c, val, false, "uniform")?;
        },
        _ => {
            // a valid encoding with a few bytes replaced
            let mut b = bytes.clone();
            let k = 1 + t.idx(3);
            if l > 0 {
                for _ in 0..k {
                    let p = t.idx(l);
                    b[p] = match t.below(4) {
                        0 => b[p] ^ (1 << t.below(8)),
                        1 => 0xff,
                        2 => 0,
                        _ => t.u64() as u8,
                    };
                }
            }
            o.class("hostile-mutated");
            o.nt(!m.lens.is_empty() && b != bytes);
            o.show(|| format!("{} ({}, {}) {} -> {} bytes of the encoding replaced: {}", name, cname(c), vname(val), short(&v), k, hexs(&b)));
            attempt::<T>(name, &b, c, val, false, "mutated")?;
        },
    }
    Ok(())
}

// ---------------------------------------------------------------------------------------
// the closed set of types
// ---------------------------------------------------------------------------------------

type Ints = (u8, u16, u32, u64, i8);
type Ints2 = (i16, i32, i64, usize, isize);
type Deep = Vec<Vec<Vec<Vec<u8>>>>;
type MapDeep = BTreeMap<u8, BTreeMap<u8, BTreeSet<i8>>>;

fn rt_scalars(t: &mut Tape<'_>, o: &mut Obs) -> R {
    dispatch!(t, roundtrip(t, o, false);
        Ints, Ints2, (), (u8,), ((), (u16,)), (bool, Option<bool>, Option<Option<u8>>), u64, i8, usize, isize, bool,
        [u16; 0], [u8; 1], [u32; 7], [Option<u8>; 3], [(u8, bool); 2], [[u8; 2]; 3],
        PhantomData<u64>, (PhantomData<String>, u8), BigInt<1>, BigInt<4>, (BigInt<2>, BigUint), BigUint, Option<BigUint>,
        // every tuple arity the library implements (0..=5), with same-typed and differently-typed components
        (u8, u8), (u16, u16, u16), (u8, u8, u8, u8), (u8, u16, u32, u64), (i8, i8, i8, i8, i8), (u64, bool, u8, Option<u8>),
        (bool, String, Vec<u8>, Option<u8>), Vec<(u8, u8, u8, u8)>, BTreeMap<u8, (u8, u16, u8, u16)>, (Md, u8, Md, bool))
}

fn rt_seqs(t: &mut Tape<'_>, o: &mut Obs) -> R {
    dispatch!(t, roundtrip(t, o, false);
        Vec<u8>, Vec<u64>, Vec<bool>, Deep, Vec<String>, Vec<Option<(u8, String)>>, VecDeque<u32>, VecDeque<Vec<bool>>,
        LinkedList<u16>, LinkedList<String>, String, [Vec<u8>; 2], Vec<[u16; 3]>, Vec<BigUint>, Option<Vec<Option<Vec<i32>>>>,
        Vec<()>, Vec<[u8; 0]>, Vec<Unit>, VecDeque<PhantomData<u8>>, LinkedList<((), ())>)
}

fn rt_maps(t: &mut Tape<'_>, o: &mut Obs) -> R {
    dispatch!(t, roundtrip(t, o, false);
        BTreeMap<u32, u8>, BTreeMap<String, Vec<u16>>, MapDeep, BTreeSet<u64>, BTreeSet<String>, BTreeSet<(u8, bool)>,
        BTreeMap<(i8, u8), Option<String>>, Vec<BTreeSet<u8>>, BTreeMap<u8, ()>, BTreeSet<Vec<u8>>,
        BTreeMap<Md, u8>, BTreeMap<(Md, u8), Md>, BTreeSet<Md>, BTreeMap<u8, Vec<Md>>, Vec<Md>, VecDeque<Md>, LinkedList<Md>,
        [Md; 3], Option<Md>, (Md, bool, Md))
}

fn rt_pointers(t: &mut Tape<'_>, o: &mut Obs) -> R {
    dispatch!(t, roundtrip(t, o, false);
        Arc<Vec<u8>>, Vec<Arc<u16>>, Cow<'static, String>, Cow<'static, Vec<u32>>, Vec<Cow<'static, u32>>, (Arc<String>, Cow<'static, bool>),
        CompressedChecked<Vec<u16>>, (UncompressedUnchecked<G1>, u8), Vec<CompressedUnchecked<(u8, bool)>>, UncompressedChecked<Named>,
        Option<Arc<Option<u8>>>)
}

fn rt_derive(t: &mut Tape<'_>, o: &mut Obs) -> R {
    dispatch!(t, roundtrip(t, o, false);
        Named, Tup, One, Unit, Zst, Plain, Gs<u8>, Gs<G1>, Gs<Unit>, Gs<Gs<u16>>, Vec<Plain>, Option<Tup>, (G1, u8), Option<G1>)
}

fn rt_derive2(t: &mut Tape<'_>, o: &mut Obs) -> R {
    dispatch!(t, roundtrip(t, o, false);
        Gs<Named>, Nest, Vec<Named>, [One; 2], BTreeMap<u8, Named>, Vec<G1>, VecDeque<Tup>, LinkedList<(G1, bool)>)
}

fn rt_pinned(t: &mut Tape<'_>, o: &mut Obs) -> R {
    dispatch!(t, pinned_rt(t, o);
        Ints, bool, (), [u16; 3], Option<Option<u8>>, Vec<u8>, Vec<String>, Deep, VecDeque<u32>, LinkedList<u16>, String, BTreeMap<u32, u8>,
        BTreeSet<String>, BigUint, BigInt<4>, Arc<Vec<u8>>, Cow<'static, String>, PhantomData<u64>, Named, Tup, One, Unit, Zst, Plain, Gs<u8>, Vec<G1>,
        CompressedChecked<UncompressedUnchecked<Vec<u16>>>)
}

fn rt_large(t: &mut Tape<'_>, o: &mut Obs) -> R {
    dispatch!(t, roundtrip(t, o, true);
        Vec<u8>, Vec<u64>, Vec<bool>, VecDeque<u32>, LinkedList<u16>, String, BTreeMap<u32, u8>, BTreeSet<u64>, BigUint,
        Vec<(u8, bool)>, Vec<BigInt<2>>, (Vec<u16>, String), Gs<u32>, Vec<()>)
}

/// One container whose length sits at the pre-allocation cap of `Vec` / `VecDeque` deserialization
/// (`cautious_capacity`: at most 1 MiB / size_of::<T>() elements are reserved up front, the rest grows while reading):
/// cap - 1, cap, cap + 1, cap + 2..3000 elements.
fn rt_cap(t: &mut Tape<'_>, o: &mut Obs) -> R {
    let k = t.idx(11);
    let (d, dl): (i64, &'static str) = match t.weighted(&[2, 2, 2, 3]) {
        0 => (-1, "len=prealloc-cap-1"),
        1 => (0, "len=prealloc-cap"),
        2 => (1, "len=prealloc-cap+1"),
        _ => (2 + t.below(2999) as i64, "len>prealloc-cap+1"),
    };
    o.class(dl);
    macro_rules! go {
        ($ty:ty, $cap:expr) => {{
            o.class(concat!("cap:", stringify!($ty)));
            cap_rt::<$ty>(stringify!($ty), t, o, (($cap as i64) + d) as usize)
        }};
    }
    match k {
        0 => go!(Vec<u8>, 1usize << 20),
        1 => go!(Vec<u64>, 1usize << 17),
        2 => go!(VecDeque<u32>, 1usize << 18),
        3 => go!(Vec<(u8, bool)>, 1usize << 19),
        4 => go!(Vec<bool>, 1usize << 20),
        5 => go!(String, 1usize << 20),
        6 => go!(BigUint, 1usize << 20),
        // zero-sized elements: the reservation is capped at 2^20 elements, nothing is read per element
        7 => go!(Vec<()>, 1usize << 20),
        8 => go!(VecDeque<PhantomData<u8>>, 1usize << 20),
        9 => go!(Vec<[u8; 0]>, 1usize << 20),
        _ => go!(Vec<Unit>, 1usize << 20),
    }
}

fn rt_slices(t: &mut Tape<'_>, o: &mut Obs) -> R {
    dispatch!(t, slice_rt(t, o);
        u8, u64, bool, String, (u8, bool), Option<u16>, Vec<u8>, G1, Named, Md, (), BigUint)
}

/// Byte strings that are well-formed encodings of a *sequence of map entries* with repeated keys (a map value cannot hold
/// them, a hostile sender can write them): read as `BTreeMap<K, V>` / `BTreeSet<K>` with validation, every entry that
/// is read has to be validated - an entry that is later replaced by one with an equal key included.
fn dup_keys<V: Hv>(name: &'static str, t: &mut Tape<'_>, o: &mut Obs) -> R {
    let mut g = Gen::new(t, 24);
    let bp = g.t.weighted(&[2, 5, 3]);
    g.bad_points = [0u64, 3, 8][bp];
    let n = 2 + g.t.below(6) as usize;
    let mut entries: Vec<(u8, V)> = (0..n).map(|_| ((g.t.below(4) as u8), V::gen(&mut g))).collect();
    // force at least one repeated key, adjacent or not
    let (i, j) = (g.t.idx(n), g.t.idx(n));
    if i != j {
        entries[j].0 = entries[i].0;
    }
    let repeated = (0..n).any(|a| (0..a).any(|b| entries[a].0 == entries[b].0));
    let valid = entries.iter().all(|(_, v)| v.ok());
    o.show(|| format!("{}: {} entries read as a map, keys {:?}, all values valid: {}", name, n, entries.iter().map(|e| e.0).collect::<Vec<_>>(), valid));
    o.nt(repeated && !valid);
    o.class_if(repeated, "map-encoding-with-repeated-key");
    o.class_if(!valid, "contains-invalid-point");
    o.class_if(repeated && !valid && entries.iter().enumerate().any(|(a, (k, v))| !v.ok() && entries[a + 1..].iter().any(|(k2, _)| k2 == k)), "invalid-entry-later-replaced");
    for (c, val) in MODES {
        let bytes = ser(&entries, c, "serialize")?;
        let (r, _) = de::<BTreeMap<u8, V>>(&bytes, c, val)?;
        if val == Validate::Yes {
            match r {
                Ok(m) => ensure!(valid, format!("dup-keys.accepted.{}", cname(c)), "{}: a map encoding containing an invalid value was accepted with validation on ({} entries decoded): keys {:?}", name, m.len(), entries.iter().map(|e| e.0).collect::<Vec<_>>()),
                Err(e) => ensure!(!valid, format!("dup-keys.rejected.{}", cname(c)), "{}: a map encoding whose values are all valid was rejected: {}", name, e),
            }
        } else {
            ensure!(r.is_ok(), format!("dup-keys.unchecked.rejected.{}", cname(c)), "{}: unchecked read of a well-formed map encoding failed", name);
        }
    }
    Ok(())
}

fn dup_keys_rel(t: &mut Tape<'_>, o: &mut Obs) -> R {
    dispatch!(t, dup_keys(t, o);
        G1, One, Named, Option<G1>, (G1, u8), Vec<G1>)
}

fn validity_rel(t: &mut Tape<'_>, o: &mut Obs) -> R {
    dispatch!(t, validity(t, o);
        Named, Tup, One, Gs<G1>, Option<Tup>, [One; 2], Option<G1>, (G1, u8), [G1; 3], Arc<G1>, Cow<'static, One>, Plain)
}

fn validity_rel2(t: &mut Tape<'_>, o: &mut Obs) -> R {
    dispatch!(t, validity(t, o);
        Gs<Named>, Nest, Vec<Named>, BTreeMap<u8, Named>, Vec<G1>, VecDeque<Tup>, LinkedList<(G1, bool)>, Vec<Option<G1>>, Gs<Gs<One>>)
}

fn hostile_seqs(t: &mut Tape<'_>, o: &mut Obs) -> R {
    dispatch!(t, hostile(t, o);
        Vec<u8>, Vec<u64>, Vec<bool>, Deep, Vec<String>, Vec<Option<(u8, String)>>, VecDeque<u32>, VecDeque<Vec<bool>>,
        LinkedList<u16>, LinkedList<String>, String, [Vec<u8>; 2], Option<Vec<Option<Vec<i32>>>>, (Vec<u16>, Vec<u16>), Vec<BigInt<2>>)
}

fn hostile_maps(t: &mut Tape<'_>, o: &mut Obs) -> R {
    dispatch!(t, hostile(t, o);
        BTreeMap<u32, u8>, BTreeMap<String, Vec<u16>>, MapDeep, BTreeSet<u64>, BTreeSet<String>, BTreeSet<(u8, bool)>,
        BTreeMap<(i8, u8), Option<String>>, Vec<BTreeSet<u8>>, BigUint, Vec<BigUint>, (BigInt<2>, BigUint))
}

fn hostile_scalars(t: &mut Tape<'_>, o: &mut Obs) -> R {
    dispatch!(t, hostile(t, o);
        Ints, Ints2, (bool, Option<bool>, Option<Option<u8>>), bool, [Option<u8>; 3], [(u8, bool); 2], Option<BigUint>,
        Arc<Vec<u8>>, Cow<'static, String>, Vec<Cow<'static, u32>>, (Arc<String>, Cow<'static, bool>), CompressedChecked<Vec<u16>>,
        Vec<CompressedUnchecked<(u8, bool)>>, Option<Arc<Option<u8>>>)
}

fn hostile_derive(t: &mut Tape<'_>, o: &mut Obs) -> R {
    dispatch!(t, hostile(t, o);
        Plain, Vec<Plain>, Gs<u8>, Gs<Gs<u16>>, Gs<Plain>, Named, Tup, Nest, Vec<Named>, Option<Tup>, BTreeMap<u8, Named>, Vec<G1>, Zst,
        UncompressedChecked<Named>, (UncompressedUnchecked<G1>, u8))
}

fn relations(tier: Tier) -> Vec<Rel> {
    let q = |n: u32| tier.pick(n, n * 15);
    const LIMIT: usize = 64 << 20;
    vec![
        Rel::new("roundtrip/scalars+tuples+arrays+bigints", q(1500), 400, rt_scalars),
        Rel::new("roundtrip/sequences+strings", q(1500), 1200, rt_seqs),
        Rel::new("roundtrip/maps+sets", q(1200), 1200, rt_maps),
        Rel::new("roundtrip/arc+cow+pinned-wrappers", q(1000), 800, rt_pointers),
        Rel::new("roundtrip/derive-structs+points", q(1200), 1400, rt_derive),
        Rel::new("roundtrip/containers-of-structs+points", q(600), 1400, rt_derive2),
        Rel::new("roundtrip/pinned-wrappers+serde_json", q(1200), 800, rt_pinned),
        Rel::new("roundtrip/large-values", q(160), 400, rt_large).shrink_iters(300),
        Rel::new("validity/map-encodings-with-repeated-keys", q(600), 600, dup_keys_rel),
        Rel::new("roundtrip/len-at-prealloc-cap", q(66), 16, rt_cap).shrink_iters(20),
        Rel::new("roundtrip/slices", q(1200), 600, rt_slices),
        Rel::new("validity/structs+points", q(1200), 700, validity_rel),
        Rel::new("validity/containers-of-structs+points", q(600), 700, validity_rel2),
        Rel::new("hostile/sequences+strings", q(2000), 500, hostile_seqs).isolated(LIMIT),
        Rel::new("hostile/maps+sets+biguint", q(1500), 500, hostile_maps).isolated(LIMIT),
        Rel::new("hostile/scalars+options+pointers", q(1500), 400, hostile_scalars).isolated(LIMIT),
        Rel::new("hostile/derive+points", q(1500), 700, hostile_derive).isolated(LIMIT),
    ]
}

fn main() {
    vh_core::engine::main(PropSpec {
        id: "C18",
        rule: "A closed set of ~110 concrete Rust types (all integer widths incl. usize/isize, bool, Option, tuples of 0..5, arrays [T;0..7], Vec, VecDeque, LinkedList, String, BTreeMap, BTreeSet, BigUint, BigInt<N>, Arc, Cow, PhantomData, the four mode-pinning wrappers, and seven structs using the derive macros: named, tuple, nested-tuple, 1-tuple, unit, zero-sized and generic fields, with BLS12-381 G1 points) is picked by the tape and filled recursively from it (edge-biased integers, arbitrary Unicode scalars, empty/1/2-4/5-20-element containers under an element budget, nesting up to 4 containers, 10^4-element containers expanded from one tape word). Oracles: deserialize(serialize(v)) == v for 2 compression x 2 validation modes with unrelated trailing bytes left unread, serialized_size == bytes written, &T/&mut T/Rc/Arc/Cow write the same bytes, pinned wrappers always use their pinned mode (also through serde_json); values with G1 points outside the subgroup are rejected by check/batch_check and by deserialization exactly when validation is on; hostile bytes (every truncation, booleans > 1, non-UTF-8 bytes in strings, each length prefix replaced by n±1 / 2^32 / 2^40 / 2^61+1 / 2^62-1 / 2^63 / 2^64-1, uniform bytes, mutated encodings; positions come from an independent model of the documented format) run in a child process with a 64 MiB per-allocation guard and must give Err (or, when not certainly malformed, a value that re-serializes to the bytes read). Every round-trip case additionally serializes into a fixed &mut [u8] of exactly serialized_size bytes, into a writer that accepts only k bytes per call and reads back through a reader that delivers only k bytes per call (k: four sizes out of 1,2,3,5,7,8,9,17 from a tape word), and compares hash::<Sha256>() / hash_uncompressed::<Sha512>() with the sha2 digest of the bytes. Slices ([T] and &[T], whole vectors and sub-slices, 12 element types) must report the size they write and read back as Vec<T>. One container of cap-1, cap, cap+1, cap+2..3000 elements, cap = 2^20 / size_of::<T>() (the pre-allocation cap of Vec/VecDeque deserialization) for Vec<u8>, Vec<u64>, VecDeque<u32>, Vec<(u8,bool)>, Vec<bool>, String, BigUint is sized and round-tripped. Through serde_json the Compressed*/Uncompressed* wrappers must produce sibling-identical documents that differ between the two compressions exactly when the encodings differ, and ...Checked wrappers must reject documents of values with an invalid point while ...Unchecked accept them. Non-trivial: the value nests >= 2 containers or has a container of >= 2 elements; validity: additionally contains an invalid point; hostile: the attacked encoding contains at least one length prefix / target byte. distinct = distinct decoded choice sequences.",
        assumptions: &[
            "the encoding of a single curve point or field element is the subject of C10/C09; here points are opaque elements whose subgroup membership matters",
            "containers whose elements have an empty encoding (Vec<()>, Vec<[u8;0]>, Vec<PhantomData>) are round-tripped but never given a hostile length prefix: they would spin 2^62 iterations without reading or allocating, which the property (error instead of panic or unbounded allocation) does not speak about",
            "non-canonical but well-formed inputs (unsorted or repeated BTreeMap/BTreeSet elements, BigUint with trailing zero bytes) may be accepted; the property only names truncation, invalid booleans/UTF-8 and oversized length prefixes as malformed",
            "derive supports structs only (the macro panics on enums at compile time)",
        ],
        relations,
    })
}
