//! C18 — not implemented yet.
fn main() {
    eprintln!("C18: check not implemented");
    std::process::exit(2);
}
