//! Harness values: for every Rust type of the closed type set, a tape-driven generator, an independent model of the
//! documented byte format (with the positions of booleans, length prefixes and string bodies) and static facts about
//! the type that the oracles need.
use ark_ff::BigInt;
use ark_serialize::{
    CanonicalDeserialize, CanonicalSerialize, Compress, CompressedChecked, CompressedUnchecked, UncompressedChecked,
    UncompressedUnchecked,
};
use ark_test_curves::bls12_381::{Fq, Fr, G1Affine};
use num_bigint::BigUint;
use std::borrow::Cow;
use std::collections::{BTreeMap, BTreeSet, LinkedList, VecDeque};
use std::fmt::Debug;
use std::marker::PhantomData;
use std::sync::{Arc, OnceLock};
use vh_core::engine::Tape;

pub type G1 = G1Affine;

pub fn splitmix(mut x: u64) -> u64 {
    x = x.wrapping_add(0x9e3779b97f4a7c15);
    let mut z = x;
    z = (z ^ (z >> 30)).wrapping_mul(0xbf58476d1ce4e5b9);
    z = (z ^ (z >> 27)).wrapping_mul(0x94d049bb133111eb);
    z ^ (z >> 31)
}

// ---------------------------------------------------------------------------------------
// generator state
// ---------------------------------------------------------------------------------------

pub struct Gen<'a, 'b> {
    pub t: &'a mut Tape<'b>,
    /// Some(state): draws come from a splitmix stream seeded by one tape word (bodies of large containers)
    prng: Option<u64>,
    /// remaining container elements
    pub budget: usize,
    depth: usize,
    pub max_depth: usize,
    pub max_len: usize,
    pub allow_large: bool,
    /// Some(n): the (one) large container has exactly n elements and is always taken when a cheap container is met
    pub large_n: Option<usize>,
    pub large_used: bool,
    /// chance out of 16 that a generated curve point is outside the prime-order subgroup
    pub bad_points: u64,
    pub n_points: usize,
    pub n_bad: usize,
    pub n_empty: usize,
    /// deques whose ring buffer is wrapped (non-contiguous) when handed to the serializer
    pub n_wrapped: usize,
}

impl<'a, 'b> Gen<'a, 'b> {
    pub fn new(t: &'a mut Tape<'b>, budget: usize) -> Self {
        Gen { t, prng: None, budget, depth: 0, max_depth: 0, max_len: 0, allow_large: false, large_n: None, large_used: false, bad_points: 0, n_points: 0, n_bad: 0, n_empty: 0, n_wrapped: 0 }
    }
    pub fn u64(&mut self) -> u64 {
        match self.prng.as_mut() {
            Some(s) => {
                *s = splitmix(*s);
                *s
            },
            None => self.t.u64(),
        }
    }
    pub fn below(&mut self, n: u64) -> u64 {
        if self.prng.is_some() {
            ((self.u64() as u128 * n as u128) >> 64) as u64
        } else {
            self.t.below(n)
        }
    }
    pub fn idx(&mut self, n: usize) -> usize {
        self.below(n as u64) as usize
    }
    pub fn bool(&mut self) -> bool {
        self.below(2) == 1
    }
    pub fn chance(&mut self, num: u64, den: u64) -> bool {
        self.below(den) >= den - num
    }
    pub fn weighted(&mut self, w: &[u32]) -> usize {
        let tot: u64 = w.iter().map(|x| *x as u64).sum();
        let mut x = self.below(tot);
        for (i, wi) in w.iter().enumerate() {
            if x < *wi as u64 {
                return i;
            }
            x -= *wi as u64;
        }
        w.len() - 1
    }
    pub fn edge_u64(&mut self) -> u64 {
        match self.weighted(&[3, 2, 3, 3, 3, 2, 8]) {
            0 => 0,
            1 => 1,
            2 => u64::MAX,
            3 => 1u64 << self.below(64),
            4 => (1u64 << self.below(64)).wrapping_sub(1),
            5 => self.below(256),
            _ => self.u64(),
        }
    }
    /// Length of a container. `cheap`: the elements are scalars, so the container may be large (10^4 elements, body
    /// expanded from one tape word). Returns (len, token to pass to `end`).
    pub fn begin(&mut self, cheap: bool) -> (usize, Option<Option<u64>>) {
        let large_ok = cheap && self.allow_large && !self.large_used && self.prng.is_none();
        let cls = if large_ok && self.large_n.is_some() { 4 } else { self.weighted(&[3, 3, 6, 3, if large_ok { 30 } else { 0 }]) };
        let (n, tok) = match cls {
            0 => (0, None),
            1 => (1, None),
            2 => (2 + self.idx(3), None),
            3 => (5 + self.idx(16), None),
            _ => {
                let n = match self.large_n {
                    Some(n) => n,
                    None => 10_000 + self.idx(100),
                };
                self.large_used = true;
                let seed = self.t.u64();
                let saved = self.prng.replace(seed);
                (n, Some(saved))
            },
        };
        let n = if tok.is_some() {
            n
        } else {
            let n = n.min(self.budget);
            self.budget -= n;
            n
        };
        if n == 0 {
            self.n_empty += 1;
        } else {
            self.depth += 1;
            self.max_depth = self.max_depth.max(self.depth);
            self.max_len = self.max_len.max(n);
        }
        (n, tok)
    }
    pub fn enter(&mut self, n: usize) {
        if n == 0 {
            self.n_empty += 1;
        } else {
            self.depth += 1;
            self.max_depth = self.max_depth.max(self.depth);
            self.max_len = self.max_len.max(n);
        }
    }
    pub fn leave(&mut self, n: usize) {
        if n > 0 {
            self.depth -= 1;
        }
    }
    pub fn end(&mut self, n: usize, tok: Option<Option<u64>>) {
        if n > 0 {
            self.depth -= 1;
        }
        if let Some(saved) = tok {
            self.prng = saved;
        }
    }
}

// ---------------------------------------------------------------------------------------
// model encoder
// ---------------------------------------------------------------------------------------

#[derive(Default)]
pub struct Enc {
    pub b: Vec<u8>,
    /// offsets of boolean bytes
    pub bools: Vec<usize>,
    /// (offset, value) of u64 length prefixes
    pub lens: Vec<(usize, u64)>,
    /// (offset, length) of string bodies
    pub strs: Vec<(usize, usize)>,
}

impl Enc {
    pub fn len(&mut self, n: usize) {
        self.lens.push((self.b.len(), n as u64));
        self.b.extend_from_slice(&(n as u64).to_le_bytes());
    }
    pub fn boolean(&mut self, v: bool) {
        self.bools.push(self.b.len());
        self.b.push(v as u8);
    }
}

// ---------------------------------------------------------------------------------------
// the trait
// ---------------------------------------------------------------------------------------

pub trait Hv: CanonicalSerialize + CanonicalDeserialize + PartialEq + Debug + Clone + Send + Sync + 'static {
    /// minimal encoded size
    const MIN: usize;
    /// no container whose elements can have an empty encoding (a hostile length prefix would make those loop 2^62 times
    /// without reading or allocating: a hang, which the property does not speak about)
    const SAFE: bool;
    /// every byte string the deserializer accepts is the canonical encoding of the value it returns
    const CANON: bool;
    /// may contain curve points
    const POINTS: bool;
    /// scalar-like (allowed as the element of a 10^4-element container)
    const CHEAP: bool = false;
    fn gen(g: &mut Gen<'_, '_>) -> Self;
    fn enc(&self, c: Compress, e: &mut Enc);
    /// every curve point inside is in the prime-order subgroup
    fn ok(&self) -> bool {
        true
    }
}

macro_rules! hv_int {
    ($($t:ty),*) => {$(
        impl Hv for $t {
            const MIN: usize = core::mem::size_of::<$t>();
            const SAFE: bool = true;
            const CANON: bool = true;
            const POINTS: bool = false;
            const CHEAP: bool = true;
            fn gen(g: &mut Gen<'_, '_>) -> Self {
                let w = g.edge_u64();
                match g.below(4) {
                    0 => (w as $t).wrapping_neg(),
                    1 => <$t>::MAX.wrapping_sub(w as $t),
                    2 => <$t>::MIN.wrapping_add(w as $t),
                    _ => w as $t,
                }
            }
            fn enc(&self, _c: Compress, e: &mut Enc) {
                e.b.extend_from_slice(&self.to_le_bytes());
            }
        }
    )*};
}
hv_int!(u8, u16, u32, u64, i8, i16, i32, i64);

impl Hv for usize {
    const MIN: usize = 8;
    const SAFE: bool = true;
    const CANON: bool = true;
    const POINTS: bool = false;
    const CHEAP: bool = true;
    fn gen(g: &mut Gen<'_, '_>) -> Self {
        u64::gen(g) as usize
    }
    fn enc(&self, _c: Compress, e: &mut Enc) {
        e.b.extend_from_slice(&(*self as u64).to_le_bytes());
    }
}

impl Hv for isize {
    const MIN: usize = 8;
    const SAFE: bool = true;
    const CANON: bool = true;
    const POINTS: bool = false;
    const CHEAP: bool = true;
    fn gen(g: &mut Gen<'_, '_>) -> Self {
        i64::gen(g) as isize
    }
    fn enc(&self, _c: Compress, e: &mut Enc) {
        e.b.extend_from_slice(&(*self as i64).to_le_bytes());
    }
}

impl Hv for bool {
    const MIN: usize = 1;
    const SAFE: bool = true;
    const CANON: bool = true;
    const POINTS: bool = false;
    const CHEAP: bool = true;
    fn gen(g: &mut Gen<'_, '_>) -> Self {
        g.bool()
    }
    fn enc(&self, _c: Compress, e: &mut Enc) {
        e.boolean(*self);
    }
}

/// an arbitrary Unicode scalar value (never a surrogate, by construction)
fn gen_char(g: &mut Gen<'_, '_>) -> char {
    let cp: u32 = match g.weighted(&[6, 2, 2, 2, 2, 3]) {
        0 => 0x20 + g.below(0x5f) as u32,
        1 => g.below(0x80) as u32,
        2 => 0x80 + g.below(0x780) as u32,
        3 => 0x800 + g.below(0xD800 - 0x800) as u32,
        4 => *[0u32, 0x7f, 0x80, 0x7ff, 0x800, 0xD7FF, 0xE000, 0xFFFD, 0xFFFF, 0x10000, 0x1F600, 0x10FFFF].get(g.idx(12)).unwrap(),
        _ => {
            let x = g.below(0x110000 - 0x800) as u32;
            if x >= 0xD800 {
                x + 0x800
            } else {
                x
            }
        },
    };
    char::from_u32(cp).unwrap_or('\u{FFFD}')
}

impl Hv for String {
    const MIN: usize = 8;
    const SAFE: bool = true;
    const CANON: bool = true;
    const POINTS: bool = false;
    fn gen(g: &mut Gen<'_, '_>) -> Self {
        let (n, tok) = g.begin(true);
        let s: String = (0..n).map(|_| gen_char(g)).collect();
        g.end(n, tok);
        s
    }
    fn enc(&self, _c: Compress, e: &mut Enc) {
        e.len(self.len());
        e.strs.push((e.b.len(), self.len()));
        e.b.extend_from_slice(self.as_bytes());
    }
}

impl Hv for BigUint {
    const MIN: usize = 8;
    const SAFE: bool = true;
    // trailing zero bytes are accepted and normalised away
    const CANON: bool = false;
    const POINTS: bool = false;
    fn gen(g: &mut Gen<'_, '_>) -> Self {
        match g.weighted(&[2, 2, 2, 6, 2]) {
            0 => BigUint::from(0u8),
            1 => BigUint::from(1u8),
            2 => BigUint::from(g.edge_u64()),
            3 => {
                let (n, tok) = g.begin(true);
                let b: Vec<u8> = (0..n).map(|_| g.u64() as u8).collect();
                g.end(n, tok);
                BigUint::from_bytes_le(&b)
            },
            _ => BigUint::from(1u8) << (g.below(600) as usize),
        }
    }
    fn enc(&self, _c: Compress, e: &mut Enc) {
        // documented: the little-endian bytes as a byte vector
        let b = self.to_bytes_le();
        e.len(b.len());
        e.b.extend_from_slice(&b);
    }
}

impl<const N: usize> Hv for BigInt<N> {
    const MIN: usize = 8 * N;
    const SAFE: bool = true;
    const CANON: bool = true;
    const POINTS: bool = false;
    const CHEAP: bool = true;
    fn gen(g: &mut Gen<'_, '_>) -> Self {
        let mut l = [0u64; N];
        for x in l.iter_mut() {
            *x = g.edge_u64();
        }
        BigInt(l)
    }
    fn enc(&self, _c: Compress, e: &mut Enc) {
        for l in self.0.iter() {
            e.b.extend_from_slice(&l.to_le_bytes());
        }
    }
}

impl<T: Send + Sync + 'static> Hv for PhantomData<T> {
    const MIN: usize = 0;
    const SAFE: bool = true;
    const CANON: bool = true;
    const POINTS: bool = false;
    fn gen(_g: &mut Gen<'_, '_>) -> Self {
        PhantomData
    }
    fn enc(&self, _c: Compress, _e: &mut Enc) {}
}

// ---- curve points -----------------------------------------------------------------------

/// (points of the prime-order subgroup, points of the curve outside it)
pub fn pools() -> &'static (Vec<G1>, Vec<G1>) {
    static P: OnceLock<(Vec<G1>, Vec<G1>)> = OnceLock::new();
    P.get_or_init(|| {
        use ark_ec::{AffineRepr, CurveGroup};
        let gen = G1::generator();
        let mut good = vec![G1::identity(), gen];
        for k in 2..12u64 {
            good.push((gen * Fr::from(k)).into_affine());
        }
        let mut s = 0x1234u64;
        for _ in 0..20 {
            s = splitmix(s);
            let k = Fr::from(s) * Fr::from(splitmix(s)) + Fr::from(splitmix(s ^ 1));
            good.push((gen * k).into_affine());
        }
        // BLS12-381 G1 has cofactor 0x396c8c005555e1568c00aaab0000aaab: a point obtained from an x-coordinate is
        // outside the subgroup (except with probability 2^-125)
        let mut bad = Vec::new();
        let mut x = 1u64;
        while bad.len() < 12 {
            if let Some(p) = G1::get_point_from_x_unchecked(Fq::from(x), x % 2 == 0) {
                if p.is_on_curve() && !p.is_in_correct_subgroup_assuming_on_curve() {
                    bad.push(p);
                }
            }
            x += 1;
        }
        (good, bad)
    })
}

impl Hv for G1 {
    const MIN: usize = 48;
    const SAFE: bool = true;
    // point encodings are the subject of C10
    const CANON: bool = false;
    const POINTS: bool = true;
    fn gen(g: &mut Gen<'_, '_>) -> Self {
        let (good, bad) = pools();
        g.n_points += 1;
        if g.bad_points > 0 && g.chance(g.bad_points, 16) {
            g.n_bad += 1;
            bad[g.idx(bad.len())]
        } else {
            good[g.idx(good.len())]
        }
    }
    fn enc(&self, c: Compress, e: &mut Enc) {
        // the encoding of a single point is C10's subject; arkworks is used for it
        self.serialize_with_mode(&mut e.b, c).unwrap();
    }
    fn ok(&self) -> bool {
        self.is_on_curve() && self.is_in_correct_subgroup_assuming_on_curve()
    }
}

// ---- composites -------------------------------------------------------------------------

impl<T: Hv> Hv for Option<T> {
    const MIN: usize = 1;
    const SAFE: bool = T::SAFE;
    const CANON: bool = T::CANON;
    const POINTS: bool = T::POINTS;
    fn gen(g: &mut Gen<'_, '_>) -> Self {
        if g.below(3) == 0 {
            None
        } else {
            Some(T::gen(g))
        }
    }
    fn enc(&self, c: Compress, e: &mut Enc) {
        e.boolean(self.is_some());
        if let Some(v) = self {
            v.enc(c, e);
        }
    }
    fn ok(&self) -> bool {
        self.as_ref().map(|v| v.ok()).unwrap_or(true)
    }
}

macro_rules! hv_tuple {
    ($($ty:ident : $no:tt),*) => {
        impl<$($ty: Hv),*> Hv for ($($ty,)*) {
            const MIN: usize = 0 $(+ $ty::MIN)*;
            const SAFE: bool = true $(&& $ty::SAFE)*;
            const CANON: bool = true $(&& $ty::CANON)*;
            const POINTS: bool = false $(|| $ty::POINTS)*;
            const CHEAP: bool = true $(&& $ty::CHEAP)*;
            #[allow(unused, clippy::unused_unit)]
            fn gen(g: &mut Gen<'_, '_>) -> Self {
                ($($ty::gen(g),)*)
            }
            #[allow(unused)]
            fn enc(&self, c: Compress, e: &mut Enc) {
                $(self.$no.enc(c, e);)*
            }
            fn ok(&self) -> bool {
                true $(&& self.$no.ok())*
            }
        }
    };
}
hv_tuple!();
hv_tuple!(A:0);
hv_tuple!(A:0, B:1);
hv_tuple!(A:0, B:1, C:2);
hv_tuple!(A:0, B:1, C:2, D:3);
hv_tuple!(A:0, B:1, C:2, D:3, E:4);

impl<T: Hv, const N: usize> Hv for [T; N] {
    const MIN: usize = N * T::MIN;
    const SAFE: bool = T::SAFE;
    const CANON: bool = T::CANON;
    const POINTS: bool = T::POINTS;
    const CHEAP: bool = T::CHEAP && N <= 4;
    fn gen(g: &mut Gen<'_, '_>) -> Self {
        // an array is a container of N elements (without a length prefix)
        g.enter(N);
        let a = core::array::from_fn(|_| T::gen(g));
        g.leave(N);
        a
    }
    fn enc(&self, c: Compress, e: &mut Enc) {
        for x in self {
            x.enc(c, e);
        }
    }
    fn ok(&self) -> bool {
        self.iter().all(|x| x.ok())
    }
}

macro_rules! hv_seq {
    ($name:ident, $push:ident) => {
        impl<T: Hv> Hv for $name<T> {
            const MIN: usize = 8;
            const SAFE: bool = T::SAFE && T::MIN > 0;
            const CANON: bool = T::CANON;
            const POINTS: bool = T::POINTS;
            fn gen(g: &mut Gen<'_, '_>) -> Self {
                let (n, tok) = g.begin(T::CHEAP);
                let mut out = $name::new();
                for _ in 0..n {
                    out.$push(T::gen(g));
                }
                g.end(n, tok);
                out
            }
            fn enc(&self, c: Compress, e: &mut Enc) {
                e.len(self.len());
                for x in self.iter() {
                    x.enc(c, e);
                }
            }
            fn ok(&self) -> bool {
                self.iter().all(|x| x.ok())
            }
        }
    };
}
hv_seq!(Vec, push);
hv_seq!(LinkedList, push_back);

// A VecDeque is a ring buffer: the same logical sequence can be stored contiguously or wrapped around the end of
// the allocation, depending on the *history* of operations. The generated deques are therefore built through a
// history (pre-sized buffer, push_front / push_back, optional pop + re-push and rotation), so that both layouts occur.
impl<T: Hv> Hv for VecDeque<T> {
    const MIN: usize = 8;
    const SAFE: bool = T::SAFE && T::MIN > 0;
    const CANON: bool = T::CANON;
    const POINTS: bool = T::POINTS;
    fn gen(g: &mut Gen<'_, '_>) -> Self {
        let (n, tok) = g.begin(T::CHEAP);
        let style = g.below(4);
        let mut out = if style == 0 { VecDeque::new() } else { VecDeque::with_capacity(n.max(1)) };
        for _ in 0..n {
            let x = T::gen(g);
            if style >= 2 && g.bool() {
                out.push_front(x);
            } else {
                out.push_back(x);
            }
        }
        if style == 3 && n > 0 {
            // FIFO use at full capacity: move the head forward
            let k = 1 + g.idx(n);
            for _ in 0..k {
                if let Some(x) = out.pop_front() {
                    out.push_back(x);
                }
            }
        }
        if !out.as_slices().1.is_empty() {
            g.n_wrapped += 1;
        }
        g.end(n, tok);
        out
    }
    fn enc(&self, c: Compress, e: &mut Enc) {
        e.len(self.len());
        for x in self.iter() {
            x.enc(c, e);
        }
    }
    fn ok(&self) -> bool {
        self.iter().all(|x| x.ok())
    }
}

impl<T: Hv + Ord> Hv for BTreeSet<T> {
    const MIN: usize = 8;
    const SAFE: bool = T::SAFE && T::MIN > 0;
    // elements are accepted in any order and with repetitions
    const CANON: bool = false;
    const POINTS: bool = T::POINTS;
    fn gen(g: &mut Gen<'_, '_>) -> Self {
        let (n, tok) = g.begin(T::CHEAP);
        let mut out = BTreeSet::new();
        for _ in 0..n {
            out.insert(T::gen(g));
        }
        g.end(n, tok);
        out
    }
    fn enc(&self, c: Compress, e: &mut Enc) {
        e.len(self.len());
        for x in self.iter() {
            x.enc(c, e);
        }
    }
    fn ok(&self) -> bool {
        self.iter().all(|x| x.ok())
    }
}

/// A harness type that is `Ord` *and* has a mode-dependent encoding (2 bytes compressed, 4 bytes uncompressed), like
/// a curve point but usable as a map key / set element: no shipped type combines the two, so without it a container
/// that pins the wrong mode for its keys could not be told apart.
#[derive(Clone, Copy, Debug, PartialEq, Eq, PartialOrd, Ord, Hash)]
pub struct Md(pub u16);

impl ark_serialize::Valid for Md {
    fn check(&self) -> Result<(), ark_serialize::SerializationError> {
        Ok(())
    }
}
impl CanonicalSerialize for Md {
    fn serialize_with_mode<W: ark_serialize::Write>(&self, mut w: W, c: Compress) -> Result<(), ark_serialize::SerializationError> {
        match c {
            Compress::Yes => w.write_all(&self.0.to_le_bytes())?,
            Compress::No => w.write_all(&(self.0 as u32).to_le_bytes())?,
        }
        Ok(())
    }
    fn serialized_size(&self, c: Compress) -> usize {
        match c {
            Compress::Yes => 2,
            Compress::No => 4,
        }
    }
}
impl CanonicalDeserialize for Md {
    fn deserialize_with_mode<R: ark_serialize::Read>(mut r: R, c: Compress, _v: ark_serialize::Validate) -> Result<Self, ark_serialize::SerializationError> {
        match c {
            Compress::Yes => {
                let mut b = [0u8; 2];
                r.read_exact(&mut b)?;
                Ok(Md(u16::from_le_bytes(b)))
            },
            Compress::No => {
                let mut b = [0u8; 4];
                r.read_exact(&mut b)?;
                let v = u32::from_le_bytes(b);
                if v > u16::MAX as u32 {
                    return Err(ark_serialize::SerializationError::InvalidData);
                }
                Ok(Md(v as u16))
            },
        }
    }
}
impl Hv for Md {
    const MIN: usize = 2;
    const SAFE: bool = true;
    const CANON: bool = true;
    const POINTS: bool = false;
    const CHEAP: bool = true;
    fn gen(g: &mut Gen<'_, '_>) -> Self {
        Md(g.edge_u64() as u16)
    }
    fn enc(&self, c: Compress, e: &mut Enc) {
        match c {
            Compress::Yes => e.b.extend_from_slice(&self.0.to_le_bytes()),
            Compress::No => e.b.extend_from_slice(&(self.0 as u32).to_le_bytes()),
        }
    }
}

impl<K: Hv + Ord, V: Hv> Hv for BTreeMap<K, V> {
    const MIN: usize = 8;
    const SAFE: bool = K::SAFE && V::SAFE && (K::MIN + V::MIN > 0);
    const CANON: bool = false;
    const POINTS: bool = K::POINTS || V::POINTS;
    fn gen(g: &mut Gen<'_, '_>) -> Self {
        let (n, tok) = g.begin(K::CHEAP && V::CHEAP);
        let mut out = BTreeMap::new();
        for _ in 0..n {
            let k = K::gen(g);
            let v = V::gen(g);
            out.insert(k, v);
        }
        g.end(n, tok);
        out
    }
    fn enc(&self, c: Compress, e: &mut Enc) {
        e.len(self.len());
        for (k, v) in self.iter() {
            k.enc(c, e);
            v.enc(c, e);
        }
    }
    fn ok(&self) -> bool {
        self.iter().all(|(k, v)| k.ok() && v.ok())
    }
}

impl<T: Hv> Hv for Arc<T> {
    const MIN: usize = T::MIN;
    const SAFE: bool = T::SAFE;
    const CANON: bool = T::CANON;
    const POINTS: bool = T::POINTS;
    const CHEAP: bool = false;
    fn gen(g: &mut Gen<'_, '_>) -> Self {
        Arc::new(T::gen(g))
    }
    fn enc(&self, c: Compress, e: &mut Enc) {
        self.as_ref().enc(c, e)
    }
    fn ok(&self) -> bool {
        self.as_ref().ok()
    }
}

impl<T: Hv> Hv for Cow<'static, T> {
    const MIN: usize = T::MIN;
    const SAFE: bool = T::SAFE;
    const CANON: bool = T::CANON;
    const POINTS: bool = T::POINTS;
    fn gen(g: &mut Gen<'_, '_>) -> Self {
        Cow::Owned(T::gen(g))
    }
    fn enc(&self, c: Compress, e: &mut Enc) {
        self.as_ref().enc(c, e)
    }
    fn ok(&self) -> bool {
        self.as_ref().ok()
    }
}

macro_rules! hv_pinned {
    ($name:ident, $c:expr) => {
        impl<T: Hv> Hv for $name<T> {
            const MIN: usize = T::MIN;
            const SAFE: bool = T::SAFE;
            const CANON: bool = T::CANON;
            const POINTS: bool = T::POINTS;
            fn gen(g: &mut Gen<'_, '_>) -> Self {
                $name(T::gen(g))
            }
            fn enc(&self, _c: Compress, e: &mut Enc) {
                self.0.enc($c, e)
            }
            fn ok(&self) -> bool {
                self.0.ok()
            }
        }
    };
}
hv_pinned!(CompressedChecked, Compress::Yes);
hv_pinned!(CompressedUnchecked, Compress::Yes);
hv_pinned!(UncompressedChecked, Compress::No);
hv_pinned!(UncompressedUnchecked, Compress::No);

// ---------------------------------------------------------------------------------------
// structs using the derive macros
// ---------------------------------------------------------------------------------------

/// implements `Hv` for a struct from the list of its fields in declaration order (that is the documented format of the
/// derive: fields in order, tuple fields flattened in order)
macro_rules! hv_struct {
    ($name:ident $(<$gp:ident>)? ; $($f:tt : $ty:ty),* ; $build:expr) => {
        impl $(<$gp: Hv>)? Hv for $name $(<$gp>)? {
            const MIN: usize = 0 $(+ <$ty as Hv>::MIN)*;
            const SAFE: bool = true $(&& <$ty as Hv>::SAFE)*;
            const CANON: bool = true $(&& <$ty as Hv>::CANON)*;
            const POINTS: bool = false $(|| <$ty as Hv>::POINTS)*;
            #[allow(unused)]
            fn gen(g: &mut Gen<'_, '_>) -> Self {
                let b: fn(($($ty,)*)) -> Self = $build;
                b(($(<$ty as Hv>::gen(g),)*))
            }
            #[allow(unused)]
            fn enc(&self, c: Compress, e: &mut Enc) {
                $(self.$f.enc(c, e);)*
            }
            fn ok(&self) -> bool {
                true $(&& self.$f.ok())*
            }
        }
    };
}

/// named fields, nested-tuple field (the example of the trait documentation), a point, a string
#[derive(Clone, Debug, PartialEq, CanonicalSerialize, CanonicalDeserialize)]
pub struct Named {
    pub a: u64,
    pub b: (u64, (u64, u64)),
    pub c: bool,
    pub p: G1,
    pub s: String,
}
hv_struct!(Named; a: u64, b: (u64, (u64, u64)), c: bool, p: G1, s: String; |(a, b, c, p, s)| Named { a, b, c, p, s });

/// tuple struct with a nested tuple that ends in a 1-tuple
#[derive(Clone, Debug, PartialEq, CanonicalSerialize, CanonicalDeserialize)]
pub struct Tup(pub u8, pub (u16, (u32, (i64,))), pub G1, pub Option<bool>);
hv_struct!(Tup; 0: u8, 1: (u16, (u32, (i64,))), 2: G1, 3: Option<bool>; |(a, b, c, d)| Tup(a, b, c, d));

/// a single field that is a 1-tuple
#[derive(Clone, Debug, PartialEq, CanonicalSerialize, CanonicalDeserialize)]
pub struct One(pub (G1,));
hv_struct!(One; 0: (G1,); |(a,)| One(a));

/// no fields
#[derive(Clone, Debug, PartialEq, CanonicalSerialize, CanonicalDeserialize)]
pub struct Unit;
impl Hv for Unit {
    const MIN: usize = 0;
    const SAFE: bool = true;
    const CANON: bool = true;
    const POINTS: bool = false;
    fn gen(_g: &mut Gen<'_, '_>) -> Self {
        Unit
    }
    fn enc(&self, _c: Compress, _e: &mut Enc) {}
}

/// zero-sized fields next to a real one
#[derive(Clone, Debug, PartialEq, CanonicalSerialize, CanonicalDeserialize)]
pub struct Zst {
    pub p: PhantomData<u64>,
    pub u: (),
    pub a: [u8; 0],
    pub x: u16,
    pub q: ((), (PhantomData<String>,)),
}
hv_struct!(Zst; p: PhantomData<u64>, u: (), a: [u8; 0], x: u16, q: ((), (PhantomData<String>,)); |(p, u, a, x, q)| Zst { p, u, a, x, q });

/// generic struct
#[derive(Clone, Debug, PartialEq, CanonicalSerialize, CanonicalDeserialize)]
pub struct Gs<T: Hv> {
    pub head: T,
    pub tail: Vec<T>,
    pub opt: Option<T>,
    pub pair: (T, u8),
}
hv_struct!(Gs<T>; head: T, tail: Vec<T>, opt: Option<T>, pair: (T, u8); |(head, tail, opt, pair)| Gs { head, tail, opt, pair });

/// structs inside structs and containers
#[derive(Clone, Debug, PartialEq, CanonicalSerialize, CanonicalDeserialize)]
pub struct Nest {
    pub n: Named,
    pub g: Gs<Tup>,
    pub m: BTreeMap<u16, One>,
    pub v: Vec<(G1, bool)>,
    pub z: Zst,
}
hv_struct!(Nest; n: Named, g: Gs<Tup>, m: BTreeMap<u16, One>, v: Vec<(G1, bool)>, z: Zst; |(n, g, m, v, z)| Nest { n, g, m, v, z });

/// a struct without points (hostile-bytes target with booleans, strings and nested lengths)
#[derive(Clone, Debug, PartialEq, CanonicalSerialize, CanonicalDeserialize)]
pub struct Plain {
    pub flag: bool,
    pub name: String,
    pub items: Vec<(u16, Option<String>)>,
    pub t: (bool, (Vec<u8>, (bool,))),
}
hv_struct!(Plain; flag: bool, name: String, items: Vec<(u16, Option<String>)>, t: (bool, (Vec<u8>, (bool,))); |(flag, name, items, t)| Plain { flag, name, items, t });
