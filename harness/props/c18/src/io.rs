//! Readers / writers that move only a few bytes per call (pipes, sockets: `read` / `write` may be partial), used to
//! check that what a value serializes to, and what bytes deserialize to, does not depend on the `Read` / `Write`
//! implementation behind the API (same types as in props/c09/src/io.rs).
use ark_serialize::{Read, Write};

/// chunk sizes of a dribbling reader / writer: four sizes out of {1,2,3,5,7,8,9,17}, word 0 = one byte per call
pub fn pattern(word: u64) -> [usize; 4] {
    const KS: [usize; 8] = [1, 2, 3, 5, 7, 8, 9, 17];
    [KS[(word & 7) as usize], KS[((word >> 3) & 7) as usize], KS[((word >> 6) & 7) as usize], KS[((word >> 9) & 7) as usize]]
}

/// `Read` that hands out at most `pat[i mod 4]` bytes in its i-th call (never 0 before the end of the data)
pub struct Dribble<'a> {
    pub data: &'a [u8],
    pub pos: usize,
    pat: [usize; 4],
    calls: usize,
}

impl<'a> Dribble<'a> {
    pub fn new(data: &'a [u8], pat: [usize; 4]) -> Self {
        Dribble { data, pos: 0, pat, calls: 0 }
    }
}

impl Read for Dribble<'_> {
    fn read(&mut self, buf: &mut [u8]) -> std::io::Result<usize> {
        let n = buf.len().min(self.data.len() - self.pos).min(self.pat[self.calls % 4]);
        self.calls += 1;
        buf[..n].copy_from_slice(&self.data[self.pos..self.pos + n]);
        self.pos += n;
        Ok(n)
    }
}

/// `Write` that accepts at most `pat[i mod 4]` bytes in its i-th call
pub struct DribbleW {
    pub out: Vec<u8>,
    pat: [usize; 4],
    calls: usize,
}

impl DribbleW {
    pub fn new(pat: [usize; 4]) -> Self {
        DribbleW { out: Vec::new(), pat, calls: 0 }
    }
}

impl Write for DribbleW {
    fn write(&mut self, buf: &[u8]) -> std::io::Result<usize> {
        let n = buf.len().min(self.pat[self.calls % 4]);
        self.calls += 1;
        self.out.extend_from_slice(&buf[..n]);
        Ok(n)
    }
    fn flush(&mut self) -> std::io::Result<()> {
        Ok(())
    }
}
