#!/bin/bash
# thorough tier: coverage-guided stage. libFuzzer target `containers` (harness/fuzz/fuzz_targets/containers.rs): a type
# selector + mode byte + payload; in-target oracle: arbitrary bytes either fail to deserialize or give a value that
# re-serializes at exactly `serialized_size` and round-trips; -malloc_limit_mb=256 turns an attacker-sized allocation into a crash.
[ "${1:-quick}" = "thorough" ] || exit 0
ROOT="${VERIF_ROOT:-/verif}"
exec "$ROOT/tools/fuzz_stage.sh" C18 containers 1500000 256 8
