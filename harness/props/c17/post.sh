#!/bin/bash
# thorough tier: coverage-guided stage (libFuzzer target with in-target oracle), see tools/fuzz_stage.sh
[ "${1:-quick}" = "thorough" ] || exit 0
ROOT="${VERIF_ROOT:-/verif}"
exec "$ROOT/tools/fuzz_stage.sh" C17 mle_ops 1500000 120 8
