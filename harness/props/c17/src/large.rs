//! Large sparse multilinear extensions: many variables (12..=18) and thousands of stored entries, a regime the
//! table-based relations cannot reach (their oracle is 2^n * n). The oracle here sums over the *stored* entries only:
//! f(x) = sum_{(b, v)} v * prod_i (b_i x_i + (1 - b_i)(1 - x_i)), which is the definition restricted to the support.
//! Size-dependent code paths (the batching window of `fix_variables` grows with log2 of the entry count) are reached.
use ark_ff::PrimeField;
use ark_poly::{MultilinearExtension, Polynomial, SparseMultilinearExtension};
use std::collections::BTreeMap;
use vh_core::engine::{Obs, Tape, R};
use vh_core::ensure;

fn mix(mut x: u64) -> u64 {
    x = x.wrapping_add(0x9e3779b97f4a7c15);
    x = (x ^ (x >> 30)).wrapping_mul(0xbf58476d1ce4e5b9);
    x = (x ^ (x >> 27)).wrapping_mul(0x94d049bb133111eb);
    x ^ (x >> 31)
}

fn weight<F: PrimeField>(idx: usize, x: &[F]) -> F {
    let mut w = F::one();
    for (i, xi) in x.iter().enumerate() {
        w *= if (idx >> i) & 1 == 1 { *xi } else { F::one() - xi };
    }
    w
}

pub fn sparse_large_rel<F: PrimeField>(t: &mut Tape<'_>, o: &mut Obs) -> R {
    let nv = t.range(12, 18) as usize;
    // entry counts around the powers of two where the batching window changes
    let target = match t.weighted(&[2, 3, 3]) {
        0 => t.range(1, 600) as usize,
        1 => {
            let e = t.range(10, 13);
            ((1usize << e) + t.below(9) as usize).saturating_sub(4)
        },
        _ => t.range(600, 9000) as usize,
    }
    .min(1 << nv);
    let seed = t.u64();
    let mut entries: BTreeMap<usize, F> = BTreeMap::new();
    let mut i = 0u64;
    while entries.len() < target {
        let idx = (mix(seed ^ i) as usize) & ((1 << nv) - 1);
        let v = F::from(mix(seed.wrapping_add(i).rotate_left(17)) | 1);
        entries.insert(idx, v);
        i += 1;
    }
    let ev: Vec<(usize, F)> = entries.iter().map(|(a, b)| (*a, *b)).collect();
    let s = SparseMultilinearExtension::<F>::from_evaluations(nv, &ev);
    let x: Vec<F> = (0..nv)
        .map(|_| match t.below(5) {
            0 => F::zero(),
            1 => F::one(),
            _ => F::from(t.u64()) + F::from(2u64),
        })
        .collect();
    let k = match t.below(4) {
        0 => nv,
        1 => t.range(0, nv as u64) as usize,
        _ => t.range(nv as u64 - 6, nv as u64) as usize,
    };
    o.show(|| format!("sparse MLE: {} variables, {} stored entries, fix the first {} variables", nv, ev.len(), k));
    o.nt(ev.len() >= 2);
    o.class_if(ev.len() > 4096, "entries>4096");
    o.class_if(k >= 13, "fixes>=13-variables");
    // evaluate
    let want: F = ev.iter().map(|(b, v)| *v * weight(*b, &x)).sum();
    ensure!(s.evaluate(&x) == want, "large.evaluate", "evaluate differs from the sum over the stored entries ({} variables, {} entries)", nv, ev.len());
    // fix the first k variables: the result, evaluated at the remaining coordinates, must give the same value, and its
    // table must be the restriction: entry j = sum over stored (b, v) with high bits j of v * weight(low bits)
    let fixed = s.fix_variables(&x[..k]);
    ensure!(fixed.num_vars() == nv - k, "large.fix.arity", "fix_variables({}) of {} variables has arity {}", k, nv, fixed.num_vars());
    let mut restr: BTreeMap<usize, F> = BTreeMap::new();
    for (b, v) in &ev {
        let low = b & ((1usize << k) - 1);
        *restr.entry(b >> k).or_insert(F::zero()) += *v * weight(low, &x[..k]);
    }
    if nv - k <= 12 {
        let tab = fixed.to_evaluations();
        for (j, got) in tab.iter().enumerate() {
            let w = restr.get(&j).copied().unwrap_or(F::zero());
            ensure!(*got == w, "large.fix.table", "fix_variables({}) entry {} ({} variables, {} entries)", k, j, nv, ev.len());
        }
    }
    ensure!(fixed.evaluate(&x[k..].to_vec()) == want, "large.fix.evaluate", "fix_variables({}) then evaluate differs ({} variables, {} entries)", k, nv, ev.len());
    Ok(())
}
