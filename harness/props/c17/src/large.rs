//! Large multilinear extensions (dense tables up to 2^22 entries, see `dense_large_rel` / `dense_huge_rel`) and
//! large sparse multilinear extensions: many variables (12..=18) and thousands of stored entries, a regime the
//! table-based relations cannot reach (their oracle is 2^n * n). The oracle here sums over the *stored* entries only:
//! f(x) = sum_{(b, v)} v * prod_i (b_i x_i + (1 - b_i)(1 - x_i)), which is the definition restricted to the support.
//! Size-dependent code paths (the batching window of `fix_variables` grows with log2 of the entry count) are reached.
use ark_ff::PrimeField;
use ark_poly::{DenseMultilinearExtension, MultilinearExtension, Polynomial, SparseMultilinearExtension};
use std::collections::BTreeMap;
use vh_core::engine::{Obs, Tape, R};
use vh_core::ensure;

fn mix(mut x: u64) -> u64 {
    x = x.wrapping_add(0x9e3779b97f4a7c15);
    x = (x ^ (x >> 30)).wrapping_mul(0xbf58476d1ce4e5b9);
    x = (x ^ (x >> 27)).wrapping_mul(0x94d049bb133111eb);
    x ^ (x >> 31)
}

fn weight<F: PrimeField>(idx: usize, x: &[F]) -> F {
    let mut w = F::one();
    for (i, xi) in x.iter().enumerate() {
        w *= if (idx >> i) & 1 == 1 { *xi } else { F::one() - xi };
    }
    w
}

pub fn sparse_large_rel<F: PrimeField>(t: &mut Tape<'_>, o: &mut Obs) -> R {
    let nv = t.range(12, 18) as usize;
    // entry counts around the powers of two where the batching window changes
    let target = match t.weighted(&[2, 3, 3]) {
        0 => t.range(1, 600) as usize,
        1 => {
            let e = t.range(10, 13);
            ((1usize << e) + t.below(9) as usize).saturating_sub(4)
        },
        _ => t.range(600, 9000) as usize,
    }
    .min(1 << nv);
    let seed = t.u64();
    let mut entries: BTreeMap<usize, F> = BTreeMap::new();
    let mut i = 0u64;
    while entries.len() < target {
        let idx = (mix(seed ^ i) as usize) & ((1 << nv) - 1);
        let v = F::from(mix(seed.wrapping_add(i).rotate_left(17)) | 1);
        entries.insert(idx, v);
        i += 1;
    }
    let ev: Vec<(usize, F)> = entries.iter().map(|(a, b)| (*a, *b)).collect();
    let s = SparseMultilinearExtension::<F>::from_evaluations(nv, &ev);
    let x: Vec<F> = (0..nv)
        .map(|_| match t.below(5) {
            0 => F::zero(),
            1 => F::one(),
            _ => F::from(t.u64()) + F::from(2u64),
        })
        .collect();
    let k = match t.below(4) {
        0 => nv,
        1 => t.range(0, nv as u64) as usize,
        _ => t.range(nv as u64 - 6, nv as u64) as usize,
    };
    o.show(|| format!("sparse MLE: {} variables, {} stored entries, fix the first {} variables", nv, ev.len(), k));
    o.nt(ev.len() >= 2);
    o.class_if(ev.len() > 4096, "entries>4096");
    o.class_if(k >= 13, "fixes>=13-variables");
    // evaluate
    let want: F = ev.iter().map(|(b, v)| *v * weight(*b, &x)).sum();
    ensure!(s.evaluate(&x) == want, "large.evaluate", "evaluate differs from the sum over the stored entries ({} variables, {} entries)", nv, ev.len());
    // fix the first k variables: the result, evaluated at the remaining coordinates, must give the same value, and its
    // table must be the restriction: entry j = sum over stored (b, v) with high bits j of v * weight(low bits)
    let fixed = s.fix_variables(&x[..k]);
    ensure!(fixed.num_vars() == nv - k, "large.fix.arity", "fix_variables({}) of {} variables has arity {}", k, nv, fixed.num_vars());
    let mut restr: BTreeMap<usize, F> = BTreeMap::new();
    for (b, v) in &ev {
        let low = b & ((1usize << k) - 1);
        *restr.entry(b >> k).or_insert(F::zero()) += *v * weight(low, &x[..k]);
    }
    if nv - k <= 12 {
        let tab = fixed.to_evaluations();
        for (j, got) in tab.iter().enumerate() {
            let w = restr.get(&j).copied().unwrap_or(F::zero());
            ensure!(*got == w, "large.fix.table", "fix_variables({}) entry {} ({} variables, {} entries)", k, j, nv, ev.len());
        }
    }
    ensure!(fixed.evaluate(&x[k..].to_vec()) == want, "large.fix.evaluate", "fix_variables({}) then evaluate differs ({} variables, {} entries)", k, nv, ev.len());
    // relabel: exchange the variable windows [a, a+w) and [b, b+w): the stored map must be the image of the stored map
    let (a, b, w) = window(t, nv);
    let rel = s.relabel(a, b, w);
    let image: BTreeMap<usize, F> = ev.iter().map(|(i, v)| (swap_window(*i, a, b, w), *v)).collect();
    let both = ev.iter().filter(|(i, _)| swap_window(*i, a, b, w) != *i && entries.contains_key(&swap_window(*i, a, b, w))).count();
    o.class_if(both > 0 && ev.len() > 1024, "relabel-large-with-index-and-image-stored");
    ensure!(rel.num_vars == nv, "large.relabel.arity", "relabel({}, {}, {}) of {} variables has arity {}", a, b, w, nv, rel.num_vars);
    let got: BTreeMap<usize, F> = rel.evaluations.iter().filter(|(_, v)| !v.is_zero()).map(|(i, v)| (*i, *v)).collect();
    ensure!(
        got == image,
        "large.relabel.map",
        "relabel({}, {}, {}) of {} variables with {} stored entries: {} entries afterwards, expected {}",
        a,
        b,
        w,
        nv,
        ev.len(),
        got.len(),
        image.len()
    );
    Ok(())
}

/// exchange bits [a, a+w) and [b, b+w) of an index
fn swap_window(i: usize, a: usize, b: usize, w: usize) -> usize {
    let m = (1usize << w) - 1;
    let (x, y) = ((i >> a) & m, (i >> b) & m);
    (i & !(m << a) & !(m << b)) | (y << a) | (x << b)
}

/// two disjoint windows of width w inside nv variables (either order, w >= 1) — or, rarely, the documented no-op a == b
fn window(t: &mut Tape<'_>, nv: usize) -> (usize, usize, usize) {
    let w = 1 + t.below((nv / 2) as u64) as usize;
    let lo = t.below((nv - 2 * w + 1) as u64) as usize;
    let hi = lo + w + t.below((nv - 2 * w - lo + 1) as u64) as usize;
    match t.below(8) {
        0 => (lo, lo, w),
        1..=3 => (hi, lo, w),
        _ => (lo, hi, w),
    }
}

/// Large dense tables (10..=18 variables): fix_variables with short and long partial points, relabel and evaluate
/// against the definition computed from the table.
pub fn dense_large_rel<F: PrimeField>(t: &mut Tape<'_>, o: &mut Obs) -> R {
    dense_large_n::<F>(t, o, 18)
}

/// the same relation on very large tables (19..=22 variables, 2^22 entries = 32 MiB of 64-bit field elements)
pub fn dense_huge_rel<F: PrimeField>(t: &mut Tape<'_>, o: &mut Obs) -> R {
    dense_large_n::<F>(t, o, 22)
}

fn dense_large_n<F: PrimeField>(t: &mut Tape<'_>, o: &mut Obs, max_nv: u64) -> R {
    let nv = if max_nv > 18 {
        t.range(19, max_nv) as usize
    } else {
        match t.weighted(&[1, 3]) {
            0 => t.range(10, 15) as usize,
            _ => t.range(15, 18) as usize,
        }
    };
    o.class_if(nv >= 19, "nv>=19");
    o.class_if(nv >= 19 && nv % 2 == 1, "nv>=19,odd");
    let seed = t.u64();
    let sparse_zeros = t.chance(1, 4);
    let table: Vec<F> = (0..1u64 << nv)
        .map(|i| {
            let h = mix(seed ^ i.wrapping_mul(0x2545f4914f6cdd1d));
            if sparse_zeros && h % 3 != 0 {
                F::zero()
            } else {
                F::from(h)
            }
        })
        .collect();
    let d = DenseMultilinearExtension::<F>::from_evaluations_vec(nv, table.clone());
    let dim = match t.weighted(&[5, 1, 2]) {
        0 => t.range(0, 6) as usize,
        1 => nv,
        _ => t.range(0, nv as u64) as usize,
    };
    let x: Vec<F> = (0..nv)
        .map(|_| match t.below(6) {
            0 => F::zero(),
            1 => F::one(),
            _ => F::from(t.u64()) + F::from(2u64),
        })
        .collect();
    o.show(|| format!("dense MLE: {} variables, fix the first {} variables", nv, dim));
    o.nt(true);
    o.class_if(nv >= 16, "nv>=16");
    o.class_if(nv >= 16 && (1..=4).contains(&dim), "nv>=16,short-partial-point");
    o.class_if(dim == nv, "full-point");
    // weights of the low `dim` variables, built by doubling: eq[low] = prod_i (low_i x_i + (1 - low_i)(1 - x_i))
    let mut eq = vec![F::one()];
    for r in &x[..dim] {
        let mut next = vec![F::zero(); eq.len() * 2];
        for (low, wv) in eq.iter().enumerate() {
            next[low] = *wv * (F::one() - r);
            next[low + eq.len()] = *wv * r;
        }
        eq = next;
    }
    let want_tab: Vec<F> = (0..1usize << (nv - dim)).map(|j| (0..1usize << dim).map(|low| table[(j << dim) | low] * eq[low]).sum()).collect();
    let fixed = d.fix_variables(&x[..dim]);
    ensure!(fixed.num_vars == nv - dim, "dense-large.fix.arity", "fix_variables({}) of {} variables has arity {}", dim, nv, fixed.num_vars);
    ensure!(fixed.evaluations.len() == want_tab.len(), "dense-large.fix.len", "fix_variables({}) of {} variables has {} entries", dim, nv, fixed.evaluations.len());
    if let Some(j) = (0..want_tab.len()).find(|j| fixed.evaluations[*j] != want_tab[*j]) {
        return vh_core::fail("dense-large.fix.table", format!("fix_variables({}) of {} variables: entry {} differs from sum_low table[j*2^dim + low] * eq(low, point)", dim, nv, j));
    }
    // the full evaluation through the restricted table
    let mut rest = want_tab;
    for r in &x[dim..] {
        let half = rest.len() / 2;
        rest = (0..half).map(|j| rest[2 * j] + (rest[2 * j + 1] - rest[2 * j]) * r).collect();
    }
    ensure!(d.evaluate(&x) == rest[0], "dense-large.evaluate", "evaluate of {} variables differs from the definition", nv);
    // relabel
    let (a, b, w) = window(t, nv);
    let rel = d.relabel(a, b, w);
    ensure!(rel.num_vars == nv && rel.evaluations.len() == table.len(), "dense-large.relabel.arity", "relabel({}, {}, {}) of {} variables", a, b, w, nv);
    if let Some(i) = (0..table.len()).find(|i| rel.evaluations[swap_window(*i, a, b, w)] != table[*i]) {
        return vh_core::fail("dense-large.relabel.table", format!("relabel({}, {}, {}) of {} variables: entry {} did not move to {}", a, b, w, nv, i, swap_window(i, a, b, w)));
    }
    Ok(())
}
