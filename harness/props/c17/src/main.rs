//! C17 — not implemented yet.
fn main() {
    eprintln!("C17: check not implemented");
    std::process::exit(2);
}
