//! C17 — multilinear extensions and sparse multivariate polynomials evaluate as defined.
//!
//! Oracle = the definition: f(x) = Σ_b T[b]·Π_i (b_i x_i + (1−b_i)(1−x_i)), index bit i ↔ variable i
//! (little endian, as documented on `MultilinearExtension`), computed by a direct product per index.
use ark_ff::{PrimeField, Zero};
use ark_poly::polynomial::multivariate::{SparsePolynomial as MvPoly, SparseTerm, Term};
use ark_poly::{
    DenseMVPolynomial, DenseMultilinearExtension as Dense, MultilinearExtension, Polynomial,
    SparseMultilinearExtension as Sparse,
};
use std::collections::BTreeMap;
use std::ops::{Add, AddAssign, Index, Neg, Sub, SubAssign};
use vh_core::engine::{no_panic, Obs, PropSpec, Rel, Tape, Tier, R};
use vh_core::{ensure, ensure_eq};

mod mv;

// ---------------------------------------------------------------------------------------
// generators
// ---------------------------------------------------------------------------------------

pub fn splitmix(mut x: u64) -> u64 {
    x = x.wrapping_add(0x9e3779b97f4a7c15);
    let mut z = x;
    z = (z ^ (z >> 30)).wrapping_mul(0xbf58476d1ce4e5b9);
    z = (z ^ (z >> 27)).wrapping_mul(0x94d049bb133111eb);
    z ^ (z >> 31)
}

fn words<F: PrimeField>() -> usize {
    (F::MODULUS_BIT_SIZE as usize + 64 + 63) / 64
}

pub fn uniform<F: PrimeField>(t: &mut Tape<'_>) -> F {
    let b = t.bytes(8 * words::<F>());
    F::from_le_bytes_mod_order(&b)
}

/// edge-biased field element; word 0 ⇒ 0
pub fn fe<F: PrimeField>(t: &mut Tape<'_>) -> F {
    match t.weighted(&[3, 2, 2, 3, 6]) {
        0 => F::zero(),
        1 => F::one(),
        2 => -F::one(),
        3 => F::from(t.below(8) + 2),
        _ => uniform(t),
    }
}

/// deterministic expansion of a tape word into table entry number `i`
fn expand<F: PrimeField>(seed: u64, i: u64, small: bool) -> F {
    let w = splitmix(seed ^ i.wrapping_mul(0x9e3779b97f4a7c15));
    if small {
        F::from(w % 4)
    } else {
        let mut bytes = Vec::with_capacity(8 * words::<F>());
        let mut s = w;
        for _ in 0..words::<F>() {
            bytes.extend_from_slice(&s.to_le_bytes());
            s = splitmix(s);
        }
        F::from_le_bytes_mod_order(&bytes)
    }
}

pub fn gen_n(t: &mut Tape<'_>, nmax: usize) -> usize {
    match t.weighted(&[2, 2, 3, 6, 3, 2]) {
        0 => 0,
        1 => 1,
        2 => 2,
        3 => t.range(3, 5) as usize,
        4 => t.range(6, 8.min(nmax as u64)) as usize,
        _ => t.range(9.min(nmax as u64), nmax as u64) as usize,
    }
}

/// a table of 2^n values: zero, sparse, ~sqrt-sparse or dense content
fn gen_table<F: PrimeField>(t: &mut Tape<'_>, n: usize) -> (Vec<F>, &'static str) {
    let size = 1usize << n;
    let mut v = vec![F::zero(); size];
    match t.weighted(&[2, 4, 2, 4, 2, 4]) {
        0 => (v, "tab-zero"),
        1 => {
            let k = t.range(1, 6.min(size as u64));
            for _ in 0..k {
                let i = t.idx(size);
                v[i] = fe(t);
            }
            (v, "tab-sparse")
        },
        2 => {
            let seed = t.u64();
            let k = 1u64 << (n / 2);
            for j in 0..k {
                let i = (splitmix(seed ^ j) % size as u64) as usize;
                v[i] = expand(seed, j + size as u64, false);
            }
            (v, "tab-sqrt")
        },
        3 if size <= 16 => {
            for x in v.iter_mut() {
                *x = fe(t);
            }
            (v, "tab-dense-tape")
        },
        4 => {
            let seed = t.u64();
            for (i, x) in v.iter_mut().enumerate() {
                *x = expand(seed, i as u64, true);
            }
            (v, "tab-dense-small")
        },
        _ => {
            let seed = t.u64();
            for (i, x) in v.iter_mut().enumerate() {
                *x = expand(seed, i as u64, false);
            }
            (v, "tab-dense-uniform")
        },
    }
}

/// a point of length n: Boolean, uniform or mixed
fn gen_point<F: PrimeField>(t: &mut Tape<'_>, n: usize) -> (Vec<F>, &'static str) {
    match t.weighted(&[2, 4, 4]) {
        0 => ((0..n).map(|_| if t.bool() { F::one() } else { F::zero() }).collect(), "pt-boolean"),
        1 => ((0..n).map(|_| uniform(t)).collect(), "pt-uniform"),
        _ => ((0..n).map(|_| fe(t)).collect(), "pt-mixed"),
    }
}

fn is_boolean<F: PrimeField>(p: &[F]) -> bool {
    p.iter().all(|x| x.is_zero() || x.is_one())
}

fn nnz<F: PrimeField>(v: &[F]) -> usize {
    v.iter().filter(|x| !x.is_zero()).count()
}

/// decimal rendering, abbreviated in the middle when long (evidence samples only; failure messages use it too, the
/// replay file reproduces the exact values)
pub fn fs<F: PrimeField>(x: &F) -> String {
    let d = x.to_string();
    if d.len() > 14 {
        format!("{}…{}({}d)", &d[..6], &d[d.len() - 4..], d.len())
    } else {
        d
    }
}

pub fn fmt_vec<F: PrimeField>(v: &[F], max: usize) -> String {
    let mut s: Vec<String> = v.iter().take(max).map(|x| fs(x)).collect();
    if v.len() > max {
        s.push(format!("…(+{})", v.len() - max));
    }
    format!("[{}]", s.join(","))
}

// ---------------------------------------------------------------------------------------
// oracle: the definition
// ---------------------------------------------------------------------------------------

/// w[b] = Π_i (b_i x_i + (1-b_i)(1-x_i)) for every b in {0,1}^d, bit i of b ↔ x_i
fn eq_weights<F: PrimeField>(x: &[F]) -> Vec<F> {
    let d = x.len();
    (0..1usize << d)
        .map(|b| {
            let mut p = F::one();
            for (i, xi) in x.iter().enumerate() {
                p *= if (b >> i) & 1 == 1 { *xi } else { F::one() - *xi };
            }
            p
        })
        .collect()
}

fn mle_eval<F: PrimeField>(tab: &[F], x: &[F]) -> F {
    assert_eq!(tab.len(), 1 << x.len());
    let w = eq_weights(x);
    let mut s = F::zero();
    for (a, b) in tab.iter().zip(w.iter()) {
        if !a.is_zero() {
            s += *a * *b;
        }
    }
    s
}

/// table of the function c ↦ f(r_0..r_{d-1}, c_0, .., c_{n-d-1})
fn restrict<F: PrimeField>(tab: &[F], n: usize, r: &[F]) -> Vec<F> {
    let d = r.len();
    let w = eq_weights(r);
    (0..1usize << (n - d))
        .map(|c| {
            let mut s = F::zero();
            for (a, wa) in w.iter().enumerate() {
                let v = tab[a + (c << d)];
                if !v.is_zero() {
                    s += v * *wa;
                }
            }
            s
        })
        .collect()
}

/// exchange bit a+j with bit b+j for j < k (one bit at a time)
fn swap_index(i: usize, a: usize, b: usize, k: usize) -> usize {
    let mut r = i;
    for j in 0..k {
        let (p, q) = (a + j, b + j);
        let bp = (r >> p) & 1;
        let bq = (r >> q) & 1;
        r = (r & !(1 << p) & !(1 << q)) | (bq << p) | (bp << q);
    }
    r
}

// ---------------------------------------------------------------------------------------
// the two representations behind one interface
// ---------------------------------------------------------------------------------------

trait Rep<F: PrimeField>:
    MultilinearExtension<F>
    + Index<usize, Output = F>
    + Add<Output = Self>
    + Sub<Output = Self>
    + Neg<Output = Self>
    + AddAssign<Self>
    + SubAssign<Self>
{
    const KIND: &'static str;
    fn build(n: usize, tab: &[F], t: &mut Tape<'_>, o: &mut Obs) -> Self;
    /// structural sanity of the stored representation
    fn wellformed(&self) -> bool;
    /// the whole table, read through `Index`
    fn table(&self) -> Vec<F> {
        (0..1usize << self.num_vars()).map(|i| self[i]).collect()
    }
}

impl<F: PrimeField> Rep<F> for Dense<F> {
    const KIND: &'static str = "dense";
    fn build(n: usize, tab: &[F], t: &mut Tape<'_>, _o: &mut Obs) -> Self {
        if t.bool() {
            Dense::from_evaluations_slice(n, tab)
        } else {
            Dense::from_evaluations_vec(n, tab.to_vec())
        }
    }
    fn wellformed(&self) -> bool {
        self.evaluations.len() == 1 << self.num_vars
    }
}

impl<F: PrimeField> Rep<F> for Sparse<F> {
    const KIND: &'static str = "sparse";
    /// distinct indices; every non-zero entry, plus a few explicit zero entries; in a tape-chosen order
    fn build(n: usize, tab: &[F], t: &mut Tape<'_>, o: &mut Obs) -> Self {
        let mut ent: Vec<(usize, F)> = tab.iter().enumerate().filter(|(_, v)| !v.is_zero()).map(|(i, v)| (i, *v)).collect();
        if t.chance(1, 3) {
            let mut extra: Vec<usize> = Vec::new();
            for _ in 0..t.range(1, 3) {
                let i = t.idx(tab.len());
                if tab[i].is_zero() && !extra.contains(&i) {
                    extra.push(i);
                    ent.push((i, F::zero()));
                }
            }
            o.class_if(!extra.is_empty(), "sparse-explicit-zero-entry");
        }
        match t.below(3) {
            0 => {},
            1 => ent.reverse(),
            _ => {
                let len = ent.len();
                let k = t.idx(len.max(1)).min(len);
                ent.rotate_left(k);
            },
        }
        o.class_if(ent.is_empty(), "sparse-no-entries");
        Sparse::from_evaluations(n, &ent)
    }
    fn wellformed(&self) -> bool {
        self.evaluations.keys().all(|k| *k < (1usize << self.num_vars))
    }
}

/// `res` must be the extension of `want` (n variables); the `Zero` representation (0 variables, value 0) is
/// accepted for an all-zero `want` of any arity
fn check_table<F: PrimeField, M: Rep<F>>(res: &M, n: usize, want: &[F], sig: &str) -> R {
    ensure!(res.wellformed(), format!("{}.malformed", sig), "{}: malformed result {:?}", sig, res);
    if res.num_vars() == n {
        let got = res.table();
        if got != want {
            let i = (0..want.len()).find(|i| got[*i] != want[*i]).unwrap();
            return vh_core::fail(sig, format!("{}: table differs at index {}: got {} expected {} (n={})", sig, i, got[i], want[i], n));
        }
        Ok(())
    } else {
        ensure!(
            res.is_zero() && want.iter().all(|x| x.is_zero()),
            format!("{}.arity", sig),
            "{}: result has {} variables, expected {} (result {:?}, expected table {})",
            sig,
            res.num_vars(),
            n,
            res,
            fmt_vec(want, 8)
        );
        Ok(())
    }
}

fn describe<F: PrimeField>(kind: &str, n: usize, tab: &[F], tc: &str) -> String {
    format!("{} n={} {} nnz={} T={}", kind, n, tc, nnz(tab), fmt_vec(tab, 6))
}

// ---------------------------------------------------------------------------------------
// relations generic over the representation
// ---------------------------------------------------------------------------------------

fn eval_rel<F: PrimeField, M: Rep<F>>(t: &mut Tape<'_>, o: &mut Obs, nmax: usize) -> R {
    let n = gen_n(t, nmax);
    let (tab, tc) = gen_table::<F>(t, n);
    let m = M::build(n, &tab, t, o);
    let pts: Vec<(Vec<F>, &'static str)> = (0..3).map(|_| gen_point::<F>(t, n)).collect();
    o.show(|| format!("{} points {:?}", describe(M::KIND, n, &tab, tc), pts.iter().map(|p| fmt_vec(&p.0, 4)).collect::<Vec<_>>()));
    o.class(tc);
    o.class_if(n == 0, "n=0");
    for p in &pts {
        o.class(p.1);
    }
    o.nt(n >= 2 && nnz(&tab) >= 2 && pts.iter().any(|p| !is_boolean(&p.0)));
    o.evals(6);
    ensure!(m.wellformed(), "build.malformed", "{:?}", m);
    ensure_eq!(m.num_vars(), n, "num_vars");
    // whole table through Index and through to_evaluations
    let got = m.table();
    ensure!(got == tab, "index", "Index disagrees with the table: got {} expected {}", fmt_vec(&got, 8), fmt_vec(&tab, 8));
    let ev = m.to_evaluations();
    ensure!(ev == tab, "to_evaluations", "to_evaluations: got {} expected {}", fmt_vec(&ev, 8), fmt_vec(&tab, 8));
    for (p, _) in &pts {
        let want = mle_eval(&tab, p);
        let got = no_panic("evaluate", || m.evaluate(p))?;
        ensure!(got == want, "evaluate", "evaluate({}) = {} expected {}", fmt_vec(p, 6), got, want);
        if is_boolean(p) {
            let idx: usize = p.iter().enumerate().map(|(i, x)| if x.is_one() { 1usize << i } else { 0 }).sum();
            ensure!(got == tab[idx], "evaluate.boolean", "value at Boolean point {} is {} but T[{}] = {}", fmt_vec(p, 6), got, idx, tab[idx]);
        }
    }
    Ok(())
}

fn fix_rel<F: PrimeField, M: Rep<F>>(t: &mut Tape<'_>, o: &mut Obs, nmax: usize) -> R {
    let n = gen_n(t, nmax);
    let (tab, tc) = gen_table::<F>(t, n);
    let m = M::build(n, &tab, t, o);
    let (pt, pc) = gen_point::<F>(t, n);
    let lens: Vec<usize> = if n <= 8 {
        (0..=n).collect()
    } else {
        let mut l = vec![0, 1, t.range(2, n as u64 - 2) as usize, n - 1, n];
        l.dedup();
        l
    };
    let split = (t.idx(n + 1), t.idx(n + 1));
    o.show(|| format!("{} fix_variables(prefixes of {}) lengths {:?}", describe(M::KIND, n, &tab, tc), fmt_vec(&pt, 4), lens));
    o.class(tc);
    o.class(pc);
    o.class_if(n == 0, "n=0");
    o.class("fix-full-length");
    o.class("fix-empty");
    o.nt(n >= 2 && nnz(&tab) >= 2 && !is_boolean(&pt));
    o.evals(lens.len() as u64);
    for d in lens {
        let r = no_panic("fix_variables", || m.fix_variables(&pt[..d]))?;
        ensure!(r.wellformed(), "fix_variables.malformed", "{:?}", r);
        ensure_eq!(r.num_vars(), n - d, "fix_variables.num_vars", "partial point of length {}", d);
        let want = restrict(&tab, n, &pt[..d]);
        let got = r.table();
        if got != want {
            let i = (0..want.len()).find(|i| got[*i] != want[*i]).unwrap();
            return vh_core::fail(
                "fix_variables",
                format!("fix_variables with {} of {} variables bound to {}: entry {} is {} expected {}", d, n, fmt_vec(&pt[..d], 6), i, got[i], want[i]),
            );
        }
        let ev = r.to_evaluations();
        ensure!(ev == want, "fix_variables.to_evaluations", "to_evaluations of the restricted polynomial: got {} expected {}", fmt_vec(&ev, 8), fmt_vec(&want, 8));
    }
    // binding in two steps = binding at once
    let (d1, d2) = (split.0.min(split.1), split.0.max(split.1));
    let two = m.fix_variables(&pt[..d1]).fix_variables(&pt[d1..d2]);
    let want = restrict(&tab, n, &pt[..d2]);
    ensure_eq!(two.num_vars(), n - d2, "fix_variables.chained.num_vars");
    ensure!(two.table() == want, "fix_variables.chained", "fix({}) then fix({}) differs from the restriction to the first {} variables", d1, d2 - d1, d2);
    Ok(())
}

/// a valid relabel window: k = 0, a = b, or two disjoint windows inside 0..n (including b + k = n)
fn gen_window(t: &mut Tape<'_>, n: usize) -> (usize, usize, usize, &'static str) {
    let cls = if n >= 2 { t.weighted(&[1, 1, 6]) } else { t.weighted(&[1, 1]) };
    match cls {
        0 => (t.idx(n + 1), t.idx(n + 1), 0, "win-k=0"),
        1 => {
            let k = t.idx(n + 1);
            let a = t.idx(n - k + 1);
            (a, a, k, "win-a=b")
        },
        _ => {
            let k = t.range(1, (n / 2) as u64) as usize;
            let lo = t.idx(n - 2 * k + 1);
            let at_end = t.chance(1, 5);
            let hi = if at_end { n - k } else { lo + k + t.idx(n - k - (lo + k) + 1) };
            let cls = if hi + k == n { "win-ends-at-n" } else { "win-inside" };
            if t.bool() {
                (hi, lo, k, cls)
            } else {
                (lo, hi, k, cls)
            }
        },
    }
}

fn relabel_rel<F: PrimeField, M: Rep<F>>(t: &mut Tape<'_>, o: &mut Obs, nmax: usize) -> R {
    let n = gen_n(t, nmax);
    let (tab, tc) = gen_table::<F>(t, n);
    let m = M::build(n, &tab, t, o);
    let (a, b, k, wc) = gen_window(t, n);
    let (pt, pc) = gen_point::<F>(t, n);
    o.show(|| format!("{} relabel({}, {}, {}) [{}] point {}", describe(M::KIND, n, &tab, tc), a, b, k, wc, fmt_vec(&pt, 4)));
    o.class(tc);
    o.class(wc);
    o.class(pc);
    o.class_if(a > b, "win-a>b");
    o.class_if(k >= 2, "win-k>=2");
    o.nt(n >= 2 && nnz(&tab) >= 2 && k >= 1 && a != b);
    o.evals(2);
    let want: Vec<F> = (0..tab.len()).map(|i| tab[swap_index(i, a, b, k)]).collect();
    let r = no_panic("relabel", || m.relabel(a, b, k))?;
    ensure!(r.wellformed(), "relabel.malformed", "{:?}", r);
    ensure_eq!(r.num_vars(), n, "relabel.num_vars");
    let got = r.table();
    if got != want {
        let i = (0..want.len()).find(|i| got[*i] != want[*i]).unwrap();
        return vh_core::fail("relabel", format!("relabel({},{},{}) on {} variables: entry {} is {} expected {} (= T[{}])", a, b, k, n, i, got[i], want[i], swap_index(i, a, b, k)));
    }
    // Q(x) = P(x with the two windows exchanged)
    let mut y = pt.clone();
    for j in 0..k {
        y.swap(a + j, b + j);
    }
    let q = r.evaluate(&pt);
    let p = mle_eval(&tab, &y);
    ensure!(q == p, "relabel.evaluate", "relabel({},{},{}): Q({}) = {} but P(swapped point) = {}", a, b, k, fmt_vec(&pt, 6), q, p);
    // relabelling twice is the identity
    let back = r.relabel(a, b, k);
    ensure!(back.table() == tab, "relabel.involution", "relabel({},{},{}) twice is not the identity", a, b, k);
    Ok(())
}

struct OpsCase<F: PrimeField> {
    n: usize,
    ta: Vec<F>,
    tb: Vec<F>,
    za: bool,
    zb: bool,
    f: F,
    pt: Vec<F>,
}

fn gen_ops<F: PrimeField>(t: &mut Tape<'_>, o: &mut Obs, nmax: usize, kind: &str) -> OpsCase<F> {
    let mut n = gen_n(t, nmax);
    let za = t.chance(1, 6);
    let zb = t.chance(1, 6);
    if za && zb {
        n = 0;
    }
    let (mut ta, ca) = gen_table::<F>(t, n);
    let (mut tb, cb) = gen_table::<F>(t, n);
    if za {
        ta = vec![F::zero(); 1 << n];
    }
    if zb {
        tb = vec![F::zero(); 1 << n];
    }
    // correlated operands: b = -a on half of the entries or everywhere, so that sums cancel
    if !za && !zb {
        match t.weighted(&[8, 2, 1]) {
            0 => {},
            1 => {
                for i in 0..tb.len() {
                    if splitmix(i as u64) & 1 == 0 {
                        tb[i] = -ta[i];
                    }
                }
                o.class("ops-cancelling-entries");
            },
            _ => {
                for i in 0..tb.len() {
                    tb[i] = -ta[i];
                }
                o.class("ops-rhs-is-negated-lhs");
            },
        }
    }
    let f = fe::<F>(t);
    let (pt, pc) = gen_point::<F>(t, n);
    o.show(|| {
        format!(
            "{} n={} A={} [{}{}] B={} [{}{}] f={} point {}",
            kind,
            n,
            fmt_vec(&ta, 4),
            ca,
            if za { ", Zero::zero()" } else { "" },
            fmt_vec(&tb, 4),
            cb,
            if zb { ", Zero::zero()" } else { "" },
            f,
            fmt_vec(&pt, 4)
        )
    });
    o.class(ca);
    o.class(pc);
    o.class_if(za, "ops-lhs-Zero-repr");
    o.class_if(zb, "ops-rhs-Zero-repr");
    o.class_if(f.is_zero(), "ops-scalar-0");
    o.class_if(f.is_one(), "ops-scalar-1");
    o.nt(n >= 2 && nnz(&ta) >= 2 && nnz(&tb) >= 2 && !is_boolean(&pt));
    OpsCase { n, ta, tb, za, zb, f, pt }
}

fn check_res<F: PrimeField, M: Rep<F>>(res: &M, c: &OpsCase<F>, want: &[F], sig: &str) -> R {
    check_table(res, c.n, want, sig)?;
    if res.num_vars() == c.n {
        let got = res.evaluate(&c.pt);
        let w = mle_eval(want, &c.pt);
        ensure!(got == w, format!("{}.evaluate", sig), "{}: result evaluates to {} at {}, expected {}", sig, got, fmt_vec(&c.pt, 6), w);
    }
    Ok(())
}

fn ops_rel<F: PrimeField, M: Rep<F>>(t: &mut Tape<'_>, o: &mut Obs, nmax: usize) -> R
where
    for<'a> &'a M: Add<&'a M, Output = M> + Sub<&'a M, Output = M>,
{
    let c = gen_ops::<F>(t, o, nmax, M::KIND);
    let a = if c.za { M::zero() } else { M::build(c.n, &c.ta, t, o) };
    let b = if c.zb { M::zero() } else { M::build(c.n, &c.tb, t, o) };
    o.evals(12);
    let sum: Vec<F> = c.ta.iter().zip(&c.tb).map(|(x, y)| *x + *y).collect();
    let diff: Vec<F> = c.ta.iter().zip(&c.tb).map(|(x, y)| *x - *y).collect();
    let nega: Vec<F> = c.ta.iter().map(|x| -*x).collect();
    let fma: Vec<F> = c.ta.iter().zip(&c.tb).map(|(x, y)| *x + c.f * *y).collect();
    o.class_if(nnz(&sum) == 0 && nnz(&c.ta) > 0, "ops-sum-cancels-to-zero");

    check_res(&no_panic("add", || a.clone() + b.clone())?, &c, &sum, "add")?;
    check_res(&no_panic("add.ref", || &a + &b)?, &c, &sum, "add.ref")?;
    let mut x = a.clone();
    no_panic("add_assign", || x += b.clone())?;
    check_res(&x, &c, &sum, "add_assign")?;
    let mut x = a.clone();
    no_panic("add_assign.ref", || x += &b)?;
    check_res(&x, &c, &sum, "add_assign.ref")?;
    let mut x = a.clone();
    no_panic("add_assign.scaled", || x += (c.f, &b))?;
    check_res(&x, &c, &fma, "add_assign.scaled")?;
    check_res(&no_panic("neg", || -a.clone())?, &c, &nega, "neg")?;
    check_res(&no_panic("sub", || a.clone() - b.clone())?, &c, &diff, "sub")?;
    check_res(&no_panic("sub.ref", || &a - &b)?, &c, &diff, "sub.ref")?;
    let mut x = a.clone();
    no_panic("sub_assign", || x -= b.clone())?;
    check_res(&x, &c, &diff, "sub_assign")?;
    let mut x = a.clone();
    no_panic("sub_assign.ref", || x -= &b)?;
    check_res(&x, &c, &diff, "sub_assign.ref")?;
    Ok(())
}

// ---------------------------------------------------------------------------------------
// dense only: scaling, relabel_in_place, iterators, concat
// ---------------------------------------------------------------------------------------

fn dense_extra<F: PrimeField>(t: &mut Tape<'_>, o: &mut Obs, nmax: usize) -> R {
    let c = gen_ops::<F>(t, o, nmax, "dense(scale)");
    let a = if c.za { Dense::<F>::zero() } else { Dense::build(c.n, &c.ta, t, o) };
    let (wa, wb, wk, wc) = gen_window(t, c.n);
    o.class(wc);
    o.evals(8);
    let scaled: Vec<F> = c.ta.iter().map(|x| *x * c.f).collect();
    check_res(&no_panic("mul", || a.clone() * c.f)?, &c, &scaled, "mul")?;
    check_res(&no_panic("mul.ref", || &a * &c.f)?, &c, &scaled, "mul.ref")?;
    let mut x = a.clone();
    no_panic("mul_assign", || x *= c.f)?;
    check_res(&x, &c, &scaled, "mul_assign")?;
    let mut x = a.clone();
    no_panic("mul_assign.ref", || x *= &c.f)?;
    check_res(&x, &c, &scaled, "mul_assign.ref")?;
    if !c.za {
        // iterators
        let it: Vec<F> = a.iter().cloned().collect();
        ensure!(it == c.ta, "iter", "iter() differs from the table");
        let it: Vec<F> = (&a).into_iter().cloned().collect();
        ensure!(it == c.ta, "into_iter", "into_iter() differs from the table");
        // relabel_in_place
        let mut x = a.clone();
        no_panic("relabel_in_place", || x.relabel_in_place(wa, wb, wk))?;
        let want: Vec<F> = (0..c.ta.len()).map(|i| c.ta[swap_index(i, wa, wb, wk)]).collect();
        ensure_eq!(x.num_vars, c.n, "relabel_in_place.num_vars");
        ensure!(x.evaluations == want, "relabel_in_place", "relabel_in_place({},{},{}) on {} variables: got {} expected {}", wa, wb, wk, c.n, fmt_vec(&x.evaluations, 8), fmt_vec(&want, 8));
        // iter_mut writes through
        let mut y = a.clone();
        for v in y.iter_mut() {
            *v += F::one();
        }
        let want: Vec<F> = c.ta.iter().map(|v| *v + F::one()).collect();
        ensure!(y.to_evaluations() == want, "iter_mut", "iter_mut() does not write through");
        // IntoIterator for &mut
        let mut y = a.clone();
        for v in &mut y {
            *v += F::one();
        }
        ensure!(y.to_evaluations() == want, "into_iter_mut", "(&mut mle).into_iter() does not write through");
    }
    Ok(())
}

fn concat_rel<F: PrimeField>(t: &mut Tape<'_>, o: &mut Obs, nmax: usize) -> R {
    let cnt = t.weighted(&[1, 2, 4, 3, 2, 2]);
    let mut polys: Vec<Dense<F>> = Vec::new();
    let mut want: Vec<F> = Vec::new();
    let mut sizes = Vec::new();
    let same = t.chance(1, 3);
    let n0 = gen_n(t, nmax);
    for _ in 0..cnt {
        let n = if same { n0 } else { gen_n(t, nmax) };
        let (tab, _) = gen_table::<F>(t, n);
        want.extend_from_slice(&tab);
        polys.push(Dense::from_evaluations_vec(n, tab));
        sizes.push(n);
    }
    // documented: "If the combined table size is not a power of two, pad the table with zeros" (a table has >= 1 entry)
    let mut n = 0;
    while (1usize << n) < want.len() {
        n += 1;
    }
    let total = want.len();
    want.resize(1 << n, F::zero());
    let (pt, pc) = gen_point::<F>(t, n);
    o.show(|| format!("concat of {} tables with num_vars {:?} -> n={} table {} point {}", cnt, sizes, n, fmt_vec(&want, 6), fmt_vec(&pt, 4)));
    o.class(pc);
    o.class_if(cnt == 0, "concat-of-nothing");
    o.class_if(cnt == 1, "concat-of-one");
    o.class_if(total != (1 << n), "concat-padded");
    o.class_if(sizes.windows(2).any(|w| w[0] != w[1]), "concat-different-sizes");
    o.nt(cnt >= 2 && n >= 2 && nnz(&want) >= 2 && !is_boolean(&pt));
    o.evals(3);
    let r = no_panic("concat", || Dense::concat(&polys))?;
    ensure_eq!(r.num_vars, n, "concat.num_vars");
    ensure!(r.evaluations == want, "concat", "concat: got {} expected {}", fmt_vec(&r.evaluations, 8), fmt_vec(&want, 8));
    let refs: Vec<&Dense<F>> = polys.iter().collect();
    let r2 = no_panic("concat", || Dense::concat(refs.as_slice()))?;
    ensure!(r2 == r, "concat.refs", "concat over a slice of references differs");
    let r3 = no_panic("concat", || Dense::concat(polys.clone()))?;
    ensure!(r3 == r, "concat.owned", "concat over an owned Vec differs");
    let r4 = no_panic("concat", || Dense::concat(polys.iter()))?;
    ensure!(r4 == r, "concat.iter", "concat over slice::Iter differs");
    let got = r.evaluate(&pt);
    let w = mle_eval(&want, &pt);
    ensure!(got == w, "concat.evaluate", "concat result evaluates to {} expected {}", got, w);
    // the documented identity for two tables of the same size
    if cnt == 2 && sizes[0] == sizes[1] {
        let k = sizes[0];
        let e1 = mle_eval(&want[..1 << k], &pt[..k]);
        let e2 = mle_eval(&want[1 << k..], &pt[..k]);
        ensure!(got == (F::one() - pt[k]) * e1 + pt[k] * e2, "concat.identity", "f3 != (1-x_k) f1 + x_k f2");
    }
    Ok(())
}

// ---------------------------------------------------------------------------------------
// dense and sparse forms of the same table agree everywhere
// ---------------------------------------------------------------------------------------

fn agree_rel<F: PrimeField>(t: &mut Tape<'_>, o: &mut Obs, nmax: usize) -> R {
    let n = gen_n(t, nmax);
    let (tab, tc) = gen_table::<F>(t, n);
    let (tab2, _) = gen_table::<F>(t, n);
    let d = Dense::<F>::from_evaluations_slice(n, &tab);
    let s = <Sparse<F> as Rep<F>>::build(n, &tab, t, o);
    let d2 = Dense::<F>::from_evaluations_slice(n, &tab2);
    let s2 = <Sparse<F> as Rep<F>>::build(n, &tab2, t, o);
    let pts: Vec<(Vec<F>, &'static str)> = (0..2).map(|_| gen_point::<F>(t, n)).collect();
    let (a, b, k, wc) = gen_window(t, n);
    let dl = t.idx(n + 1);
    let f = fe::<F>(t);
    o.show(|| format!("dense vs sparse: n={} {} nnz={} T={} point {} window ({},{},{}) fix {} f={}", n, tc, nnz(&tab), fmt_vec(&tab, 6), fmt_vec(&pts[0].0, 4), a, b, k, dl, f));
    o.class(tc);
    o.class(wc);
    for p in &pts {
        o.class(p.1);
    }
    o.nt(n >= 2 && nnz(&tab) >= 2 && pts.iter().any(|p| !is_boolean(&p.0)));
    o.evals(8);
    let same = |x: &Dense<F>, y: &Sparse<F>, sig: &str| -> R {
        let zero_ok = |nv: usize, all0: bool| nv == 0 && all0;
        let (tx, ty) = (x.table(), y.table());
        if x.num_vars == y.num_vars {
            ensure!(tx == ty, sig, "{}: dense table {} sparse table {}", sig, fmt_vec(&tx, 8), fmt_vec(&ty, 8));
        } else {
            // one of them is the Zero representation
            ensure!(
                (zero_ok(x.num_vars, nnz(&tx) == 0) || zero_ok(y.num_vars, nnz(&ty) == 0)) && nnz(&tx) == 0 && nnz(&ty) == 0,
                format!("{}.arity", sig),
                "{}: dense has {} variables, sparse {}",
                sig,
                x.num_vars,
                y.num_vars
            );
        }
        Ok(())
    };
    same(&d, &s, "table")?;
    ensure!(s.to_dense_multilinear_extension() == d, "to_dense", "to_dense_multilinear_extension differs from the dense form");
    ensure!(s.to_evaluations() == d.to_evaluations(), "to_evaluations", "to_evaluations differs: sparse {} dense {}", fmt_vec(&s.to_evaluations(), 8), fmt_vec(&d.to_evaluations(), 8));
    for (p, _) in &pts {
        let (x, y) = (d.evaluate(p), s.evaluate(p));
        ensure!(x == y, "evaluate", "at {}: dense {} sparse {}", fmt_vec(p, 6), x, y);
    }
    let p = &pts[0].0;
    same(&d.fix_variables(&p[..dl]), &s.fix_variables(&p[..dl]), "fix_variables")?;
    same(&d.relabel(a, b, k), &no_panic("relabel", || s.relabel(a, b, k))?, "relabel")?;
    same(&(&d + &d2), &(&s + &s2), "add")?;
    same(&(&d - &d2), &(&s - &s2), "sub")?;
    same(&(-d.clone()), &(-s.clone()), "neg")?;
    let (mut x, mut y) = (d.clone(), s.clone());
    x += (f, &d2);
    y += (f, &s2);
    same(&x, &y, "add_assign.scaled")?;
    Ok(())
}

// ---------------------------------------------------------------------------------------
// the random constructors: documented shape of the result (arity, table size, number and range of stored entries)
// ---------------------------------------------------------------------------------------

fn rand_rel<F: PrimeField>(t: &mut Tape<'_>, o: &mut Obs) -> R {
    use ark_std::rand::SeedableRng;
    let n = match t.weighted(&[1, 1, 4, 3]) {
        0 => 0,
        1 => 1,
        2 => t.range(2, 7) as usize,
        _ => t.range(8, 12) as usize,
    };
    let mut rng = ark_std::rand::rngs::StdRng::seed_from_u64(t.u64());
    let k = match t.weighted(&[1, 1, 3, 1]) {
        0 => 0,
        1 => 1,
        2 => t.range(0, (1u64 << n).min(600)) as usize,
        _ => ((1usize << n) * 3 / 4).min(600),
    };
    o.show(|| format!("rand: n={} rand_with_config k={}", n, k));
    o.nt(n >= 2);
    o.class_if(n == 0, "n=0");
    o.class_if(k == 1 << n, "rand-all-entries");
    o.evals(3);
    let d = no_panic("dense.rand", || <Dense<F> as MultilinearExtension<F>>::rand(n, &mut rng))?;
    ensure!(d.num_vars == n && d.evaluations.len() == 1 << n, "dense.rand", "rand({}) has num_vars {} and {} table entries", n, d.num_vars, d.evaluations.len());
    let s = no_panic("sparse.rand_with_config", || Sparse::<F>::rand_with_config(n, k, &mut rng))?;
    ensure_eq!(s.num_vars, n, "sparse.rand_with_config.num_vars");
    ensure!(s.wellformed(), "sparse.rand_with_config.malformed", "an index is outside 0..2^{}: {:?}", n, s);
    ensure_eq!(s.evaluations.len(), k, "sparse.rand_with_config.count", "rand_with_config({}, {})", n, k);
    // Index / to_evaluations / dense form agree with the stored map
    let tab = s.to_evaluations();
    ensure_eq!(tab.len(), 1usize << n, "sparse.rand_with_config.to_evaluations.len");
    for (i, v) in tab.iter().enumerate() {
        ensure!(*v == s.evaluations.get(&i).copied().unwrap_or(F::zero()) && s[i] == *v, "sparse.rand_with_config.table", "entry {} of rand_with_config({}, {})", i, n, k);
    }
    // documented: "The number of nonzero entries is sqrt(2^num_vars)" - exact for even n, between the neighbouring powers of
    // two for odd n
    let r = no_panic("sparse.rand", || <Sparse<F> as MultilinearExtension<F>>::rand(n, &mut rng))?;
    ensure_eq!(r.num_vars, n, "sparse.rand.num_vars");
    ensure!(r.wellformed(), "sparse.rand.malformed", "an index is outside 0..2^{}: {:?}", n, r);
    let cnt = r.evaluations.len();
    if n % 2 == 0 {
        ensure_eq!(cnt, 1usize << (n / 2), "sparse.rand.count", "rand({})", n);
    } else {
        ensure!(cnt >= 1 << ((n - 1) / 2) && cnt <= 1 << ((n + 1) / 2), "sparse.rand.count", "rand({}) stores {} entries", n, cnt);
    }
    Ok(())
}

// ---------------------------------------------------------------------------------------

fn field_rels<F: PrimeField>(out: &mut Vec<Rel>, fname: &str, tier: Tier) {
    let nmax = tier.pick(10usize, 14usize);
    let q = |n: u32| tier.pick(n, n * 25);
    let tl = 96 + 3 * nmax * (words::<F>() + 1) + 120;
    macro_rules! rep_rels {
        ($M:ty, $kind:expr) => {
            out.push(Rel::new(format!("evaluate/{}.{}", $kind, fname), q(3000), tl, move |t, o| eval_rel::<F, $M>(t, o, nmax)));
            out.push(Rel::new(format!("fix_variables/{}.{}", $kind, fname), q(3000), tl, move |t, o| fix_rel::<F, $M>(t, o, nmax)));
            out.push(Rel::new(format!("relabel/{}.{}", $kind, fname), q(3000), tl, move |t, o| relabel_rel::<F, $M>(t, o, nmax)));
            out.push(Rel::new(format!("ops/{}.{}", $kind, fname), q(3000), tl + 120, move |t, o| ops_rel::<F, $M>(t, o, nmax)));
        };
    }
    rep_rels!(Dense<F>, "dense");
    rep_rels!(Sparse<F>, "sparse");
    out.push(Rel::new(format!("scale+in_place/dense.{}", fname), q(3000), tl + 120, move |t, o| dense_extra::<F>(t, o, nmax)));
    let cmax = tier.pick(6usize, 9usize);
    out.push(Rel::new(format!("concat/dense.{}", fname), q(3000), 5 * 110 + 100, move |t, o| concat_rel::<F>(t, o, cmax)));
    out.push(Rel::new(format!("agree/dense-sparse.{}", fname), q(3000), tl + 240, move |t, o| agree_rel::<F>(t, o, nmax)));
    let tmax = tier.pick(8usize, 24usize);
    out.push(Rel::new(format!("mv.evaluate/{}", fname), q(4000), 400 + 24 * tmax, move |t, o| mv::eval_rel::<F>(t, o, tmax)));
    out.push(Rel::new(format!("mv.ops/{}", fname), q(4000), 400 + 48 * tmax, move |t, o| mv::ops_rel::<F>(t, o, tmax)));
    let big = F::MODULUS_BIT_SIZE >= 128;
    out.push(Rel::new(format!("mv.rand/{}", fname), q(600), 64, move |t, o| mv::rand_rel::<F>(t, o, big)));
    out.push(Rel::new(format!("rand/{}", fname), q(600), 64, move |t, o| rand_rel::<F>(t, o)));
    let mt = tier.pick(1500usize, 6000usize);
    out.push(Rel::new(format!("mv.many-terms/{}", fname), q(400), 64, move |t, o| mv::many_terms_rel::<F>(t, o, mt)).shrink_iters(300));
}

mod large;

fn relations(tier: Tier) -> Vec<Rel> {
    let mut out = Vec::new();
    field_rels::<ark_test_curves::bls12_381::Fr>(&mut out, "bls12_381.Fr", tier);
    field_rels::<vh_core::zoo::T97>(&mut out, "T97", tier);
    // large sparse extensions (12..=18 variables, up to 9000 stored entries): oracle over the support only
    out.push(Rel::new("sparse-large/bls12_381.Fr", tier.pick(600, 6000), 40, |t, o| large::sparse_large_rel::<ark_test_curves::bls12_381::Fr>(t, o)).shrink_iters(200));
    out.push(Rel::new("dense-large/bls12_381.Fr", tier.pick(40, 600), 48, |t, o| large::dense_large_rel::<ark_test_curves::bls12_381::Fr>(t, o)).shrink_iters(60));
    // 19..=22 variables: a handful of cases (each allocates up to 2^22-entry tables), split so that they run in parallel
    for k in 0..4 {
        out.push(Rel::new(format!("dense-huge/Gold.{}", k), tier.pick(5, 40), 48, |t, o| large::dense_huge_rel::<vh_core::zoo::Gold>(t, o)).shrink_iters(6));
    }
    out.push(Rel::new("dense-large/Gold", tier.pick(120, 2000), 48, |t, o| large::dense_large_rel::<vh_core::zoo::Gold>(t, o)).shrink_iters(60));
    out.push(Rel::new("sparse-large/Gold", tier.pick(1000, 10000), 40, |t, o| large::sparse_large_rel::<vh_core::zoo::Gold>(t, o)).shrink_iters(200));
    out
}

fn main() {
    vh_core::engine::main(PropSpec {
        id: "C17",
        rule: "Tables of 2^n field values (n = 0..10, thorough 14; zero, 1-6 non-zero entries, ~sqrt(2^n) entries, dense from the tape or expanded from a tape word) over BLS12-381 Fr and the toy field F_97 are built as dense and as sparse extensions (sparse: distinct indices in a tape-chosen order, optional explicit zero entries); points are Boolean, uniform or mixed edge values; every prefix length 0..=n is bound; relabel windows are k=0, a=b or disjoint windows including b+k=n, in both orders; operands of + - neg scale += -= +=(f,.) are tables of equal arity or the Zero representation; concat takes 0..5 tables of equal or different sizes. Oracle: the definition f(x) = sum_b T[b] prod_i (b_i x_i + (1-b_i)(1-x_i)) computed by one product per index (bit i <-> variable i), tables read through Index. Multivariate: term lists with duplicates, cancelling and zero coefficients, unordered/repeated variables, zero exponents, 0..6 variables; oracle = sum of c*prod x_v^e on the raw list and a BTreeMap normal form for term count and degree. A case is non-trivial when it has >= 2 variables, >= 2 non-zero table entries (multivariate: >= 2 non-zero merged terms) and, where a point is an input, a non-Boolean point (relabel: a non-empty swap); distinct = distinct decoded choice sequences. Added: multivariate exponents up to 2^58 (classes 2^a, 2^a +- 1, 2^a + uniform for a = 6..57; oracle uses Field::pow for exponents above 64); the random constructors (relations rand, mv.rand; StdRng seeded from the tape): DenseMultilinearExtension::rand(n) has n variables and 2^n entries, SparseMultilinearExtension::rand_with_config(n, k) stores exactly k entries with indices below 2^n and Index/to_evaluations agree with the stored map, SparseMultilinearExtension::rand(n) stores sqrt(2^n) entries (exactly 2^(n/2) for even n, between the neighbouring powers of two for odd n), multivariate rand(d, l) has l variables, only univariate terms x_v^e with v < l, 1 <= e <= d (plus a constant), no monomial twice, degree <= d (= d and 1 + l*d terms over the 255-bit field) and evaluates to the sum of its stored terms; IntoIterator for &mut dense; concat over an owned Vec and over slice::Iter. Relation mv.many-terms: term lists of 21..1500 (thorough 6000) terms over 1..5 variables with exponents <= 3 expanded from one tape word (many terms share a monomial or a total degree; the right operand repeats left terms negated) through from_coefficients_vec/slice (normal form) and + - +=(f,.). Large regime (own relations): sparse extensions of 12..=18 variables with up to 9000 stored entries (entry counts around 2^10..2^13) checked against sums over the stored entries - evaluate, fix_variables (table of the restriction), relabel (the stored map must be the image of the stored map under the window exchange; class: more than 1024 entries with an index and its image both stored); dense tables of 10..=18 variables (dense-huge: 19..=22 variables, a few cases per run) - fix_variables for partial points of length 0..6, n and uniform against sum_low table[j*2^dim+low]*eq(low, point), evaluate, relabel against the bit-window permutation.",
        assumptions: &[
            "prime-field arithmetic of ark-ff is correct (subject of C01/C02); it is used inside the oracle",
            "overlapping relabel windows and operands of different non-zero arity are documented panics and are not generated",
            "`concat` of no tables is read as the zero polynomial in 0 variables (a table has at least one entry)",
        ],
        relations,
    })
}
