//! Sparse multivariate polynomials: `evaluate = Σ cᵢ Π x_v^e`, `degree`, merging of duplicates, pointwise operators.
use super::*;

type Raw<F> = Vec<(F, Vec<(usize, usize)>)>;
/// normal form: monomial (sorted distinct variables with positive exponents) ↦ coefficient
type Normal<F> = BTreeMap<Vec<(usize, usize)>, F>;

fn gen_pow(t: &mut Tape<'_>) -> usize {
    match t.weighted(&[2, 5, 3, 2, 1]) {
        0 => 0,
        1 => 1,
        2 => 2,
        3 => t.range(3, 5) as usize,
        // large exponents (below 2^58, so that the total degree of a term with up to 5 factors stays below 2^61)
        _ => {
            let a = t.range(6, 57);
            let x = 1u64 << a;
            (match t.below(4) {
                0 => x,
                1 => x - 1,
                2 => x + 1,
                _ => x + t.below(x),
            }) as usize
        },
    }
}

fn gen_terms<F: PrimeField>(t: &mut Tape<'_>, o: &mut Obs, nv: usize, tmax: usize) -> Raw<F> {
    let nterms = match t.weighted(&[1, 2, 6, 3]) {
        0 => 0,
        1 => 1,
        2 => t.range(2, 4) as usize,
        _ => t.range(5, tmax as u64) as usize,
    };
    let mut out: Raw<F> = Vec::new();
    for i in 0..nterms {
        if i > 0 && t.chance(1, 4) {
            // the same monomial as an earlier term, written differently
            let j = t.idx(i);
            let mut m = out[j].1.clone();
            match t.below(3) {
                0 => {},
                1 => m.reverse(),
                _ => {
                    // split one exponent into two factors of the same variable
                    if let Some(k) = (0..m.len()).find(|k| m[*k].1 >= 2) {
                        let (v, e) = m[k];
                        m[k] = (v, e - 1);
                        m.push((v, 1));
                    } else if nv > 0 {
                        m.push((t.idx(nv), 0));
                    }
                },
            }
            let c = if t.chance(1, 3) {
                o.class("mv-cancelling-duplicate");
                -out[j].0
            } else {
                fe::<F>(t)
            };
            o.class("mv-duplicate-term");
            out.push((c, m));
            continue;
        }
        let len = if nv == 0 { 0 } else { t.weighted(&[2, 4, 4, 2, 1]) };
        let mut m: Vec<(usize, usize)> = Vec::new();
        for _ in 0..len {
            let v = if !m.is_empty() && t.chance(1, 4) {
                o.class("mv-repeated-variable");
                m[t.idx(m.len())].0
            } else {
                t.idx(nv)
            };
            let e = gen_pow(t);
            o.class_if(e == 0, "mv-zero-exponent");
            o.class_if(e >= 1 << 32, "mv-exponent>=2^32");
            o.class_if(e > 64, "mv-large-exponent");
            m.push((v, e));
        }
        o.class_if(m.windows(2).any(|w| w[0].0 > w[1].0), "mv-unordered-variables");
        let c = fe::<F>(t);
        o.class_if(c.is_zero(), "mv-zero-coefficient");
        out.push((c, m));
    }
    out
}

fn mono_eval<F: PrimeField>(m: &[(usize, usize)], x: &[F]) -> F {
    let mut p = F::one();
    for (v, e) in m {
        if *e <= 64 {
            for _ in 0..*e {
                p *= x[*v];
            }
        } else {
            // large exponent: square-and-multiply of ark-ff (field arithmetic, C01)
            p *= x[*v].pow([*e as u64]);
        }
    }
    p
}

fn raw_eval<F: PrimeField>(raw: &Raw<F>, x: &[F]) -> F {
    let mut s = F::zero();
    for (c, m) in raw {
        s += *c * mono_eval(m, x);
    }
    s
}

fn normal_mono(m: &[(usize, usize)]) -> Vec<(usize, usize)> {
    let mut b: BTreeMap<usize, usize> = BTreeMap::new();
    for (v, e) in m {
        *b.entry(*v).or_insert(0) += *e;
    }
    b.into_iter().filter(|(_, e)| *e > 0).collect()
}

fn normal<F: PrimeField>(raw: &Raw<F>) -> Normal<F> {
    let mut n: Normal<F> = BTreeMap::new();
    for (c, m) in raw {
        *n.entry(normal_mono(m)).or_insert_with(F::zero) += *c;
    }
    n.retain(|_, c| !c.is_zero());
    n
}

fn normal_degree<F: PrimeField>(n: &Normal<F>) -> usize {
    n.keys().map(|m| m.iter().map(|(_, e)| *e).sum::<usize>()).max().unwrap_or(0)
}

fn build<F: PrimeField>(nv: usize, raw: &Raw<F>, via_slice: bool) -> MvPoly<F, SparseTerm> {
    let terms: Vec<(F, SparseTerm)> = raw.iter().map(|(c, m)| (*c, SparseTerm::new(m.clone()))).collect();
    if via_slice {
        MvPoly::from_coefficients_slice(nv, &terms)
    } else {
        MvPoly::from_coefficients_vec(nv, terms)
    }
}

fn show_raw<F: PrimeField>(raw: &Raw<F>) -> String {
    let s: Vec<String> = raw.iter().take(5).map(|(c, m)| format!("{}*{:?}", c, m)).collect();
    format!("{}{}", s.join(" + "), if raw.len() > 5 { format!(" + …({} terms)", raw.len()) } else { String::new() })
}

fn gen_nv(t: &mut Tape<'_>) -> usize {
    match t.weighted(&[1, 2, 6, 3]) {
        0 => 0,
        1 => 1,
        2 => t.range(2, 4) as usize,
        _ => t.range(5, 6) as usize,
    }
}

fn gen_pt<F: PrimeField>(t: &mut Tape<'_>, len: usize) -> Vec<F> {
    if t.chance(1, 5) {
        (0..len).map(|_| if t.bool() { F::one() } else { F::zero() }).collect()
    } else if t.bool() {
        (0..len).map(|_| fe(t)).collect()
    } else {
        (0..len).map(|_| uniform(t)).collect()
    }
}

/// check a polynomial against the normal form of the term list it must denote
fn check_poly<F: PrimeField>(p: &MvPoly<F, SparseTerm>, raw: &Raw<F>, pts: &[Vec<F>], sig: &str, structural: bool) -> R {
    let nf = normal(raw);
    for x in pts {
        let want = raw_eval(raw, x);
        let got = no_panic("evaluate", || p.evaluate(x))?;
        ensure!(got == want, format!("{}evaluate", sig), "{}evaluate({}) = {} expected {}", sig, fmt_vec(x, 6), got, want);
    }
    ensure_eq!(p.degree(), normal_degree(&nf), format!("{}degree", sig), "terms {:?}", p.terms());
    ensure_eq!(p.is_zero(), nf.is_empty(), format!("{}is_zero", sig));
    if structural {
        ensure_eq!(p.terms().len(), nf.len(), format!("{}term_count", sig), "duplicates must be merged and zero coefficients removed; terms {:?}", p.terms());
        for (c, term) in p.terms() {
            let key: Vec<(usize, usize)> = term.iter().cloned().collect();
            ensure!(nf.get(&key) == Some(c), format!("{}terms", sig), "stored term {}*{:?} is not a term of the normal form {:?}", c, key, nf);
        }
    }
    Ok(())
}

pub fn eval_rel<F: PrimeField>(t: &mut Tape<'_>, o: &mut Obs, tmax: usize) -> R {
    let nv = gen_nv(t);
    let raw = gen_terms::<F>(t, o, nv, tmax);
    let via_slice = t.bool();
    let longer = t.chance(1, 6);
    let plen = if longer { nv + 1 + t.idx(2) } else { nv };
    let pts: Vec<Vec<F>> = (0..2).map(|_| gen_pt::<F>(t, plen)).collect();
    let nf = normal(&raw);
    o.show(|| format!("multivariate nv={} terms {} -> {} merged terms, points {:?}", nv, show_raw(&raw), nf.len(), pts.iter().map(|p| fmt_vec(p, 6)).collect::<Vec<_>>()));
    o.class_if(nv == 0, "mv-0-variables");
    o.class_if(raw.is_empty(), "mv-no-terms");
    o.class_if(nf.is_empty() && !raw.is_empty(), "mv-everything-cancels");
    o.class_if(longer, "mv-point-longer-than-num_vars");
    o.nt(nv >= 2 && nf.len() >= 2 && pts.iter().any(|p| !is_boolean(p)));
    o.evals(4 + raw.len() as u64);
    // single terms: what `SparseTerm::new` documents (sorted, merged, zero powers removed)
    for (_, m) in &raw {
        let term = SparseTerm::new(m.clone());
        let nm = normal_mono(m);
        let stored: Vec<(usize, usize)> = term.iter().cloned().collect();
        ensure!(stored == nm, "term.new", "SparseTerm::new({:?}) = {:?} expected {:?}", m, stored, nm);
        ensure_eq!(term.vars(), nm.iter().map(|x| x.0).collect::<Vec<_>>(), "term.vars");
        ensure_eq!(term.powers(), nm.iter().map(|x| x.1).collect::<Vec<_>>(), "term.powers");
        ensure_eq!(term.degree(), nm.iter().map(|x| x.1).sum::<usize>(), "term.degree");
        ensure_eq!(term.is_constant(), nm.is_empty(), "term.is_constant");
        let got: F = term.evaluate(&pts[0]);
        ensure!(got == mono_eval(m, &pts[0]), "term.evaluate", "term {:?} at {}: got {}", m, fmt_vec(&pts[0], 6), got);
    }
    let p = no_panic("from_coefficients", || build(nv, &raw, via_slice))?;
    ensure_eq!(p.num_vars(), nv, "num_vars");
    check_poly(&p, &raw, &pts, "", true)
}

pub fn ops_rel<F: PrimeField>(t: &mut Tape<'_>, o: &mut Obs, tmax: usize) -> R {
    let nv1 = gen_nv(t);
    let nv2 = if t.chance(1, 3) { gen_nv(t) } else { nv1 };
    let ra = gen_terms::<F>(t, o, nv1, tmax);
    let mut rb = gen_terms::<F>(t, o, nv2, tmax);
    if t.chance(1, 5) {
        // share monomials with the left operand (with opposite or fresh coefficients) so that terms meet and cancel
        for (c, m) in &ra {
            if m.iter().all(|(v, _)| *v < nv2) && t.bool() {
                rb.push((if t.bool() { -*c } else { fe::<F>(t) }, m.clone()));
            }
        }
        o.class("mv-ops-shared-monomials");
    }
    let f = fe::<F>(t);
    let nv = nv1.max(nv2);
    let pts: Vec<Vec<F>> = (0..2).map(|_| gen_pt::<F>(t, nv)).collect();
    o.show(|| format!("multivariate ops: A(nv={})={} B(nv={})={} f={} point {}", nv1, show_raw(&ra), nv2, show_raw(&rb), f, fmt_vec(&pts[0], 6)));
    o.class_if(nv1 != nv2, "mv-ops-different-num_vars");
    o.class_if(f.is_zero(), "ops-scalar-0");
    let (na, nb) = (normal(&ra), normal(&rb));
    o.class_if(na.is_empty() || nb.is_empty(), "mv-ops-zero-operand");
    o.nt(nv >= 2 && na.len() >= 2 && nb.len() >= 2 && pts.iter().any(|p| !is_boolean(p)));
    o.evals(14);
    let a = build(nv1, &ra, false);
    let b = build(nv2, &rb, false);
    let cat = |x: &Raw<F>, fx: F, y: &Raw<F>, fy: F| -> Raw<F> {
        x.iter().map(|(c, m)| (*c * fx, m.clone())).chain(y.iter().map(|(c, m)| (*c * fy, m.clone()))).collect()
    };
    let one = F::one();
    let sum = cat(&ra, one, &rb, one);
    let diff = cat(&ra, one, &rb, -one);
    let fma = cat(&ra, one, &rb, f);
    let neg = cat(&ra, -one, &Vec::new(), one);
    check_poly(&no_panic("add", || a.clone() + b.clone())?, &sum, &pts, "add.", false)?;
    check_poly(&no_panic("add.ref", || &a + &b)?, &sum, &pts, "add.ref.", false)?;
    let mut x = a.clone();
    no_panic("add_assign", || x += &b)?;
    check_poly(&x, &sum, &pts, "add_assign.", false)?;
    let mut x = a.clone();
    no_panic("add_assign.scaled", || x += (f, &b))?;
    check_poly(&x, &fma, &pts, "add_assign.scaled.", false)?;
    check_poly(&no_panic("neg", || -a.clone())?, &neg, &pts, "neg.", false)?;
    check_poly(&no_panic("sub", || &a - &b)?, &diff, &pts, "sub.", false)?;
    let mut x = a.clone();
    no_panic("sub_assign", || x -= &b)?;
    check_poly(&x, &diff, &pts, "sub_assign.", false)?;
    Ok(())
}

/// `DenseMVPolynomial::rand(d, l)`: "an l-variate polynomial which is the sum of l d-degree univariate polynomials"
pub fn rand_rel<F: PrimeField>(t: &mut Tape<'_>, o: &mut Obs, big_field: bool) -> R {
    use ark_std::rand::SeedableRng;
    let d = t.weighted(&[1, 2, 2, 2, 2, 1]);
    let l = gen_nv(t);
    let mut rng = ark_std::rand::rngs::StdRng::seed_from_u64(t.u64());
    let x = gen_pt::<F>(t, l);
    o.show(|| format!("multivariate rand(d={}, l={}) point {}", d, l, fmt_vec(&x, 6)));
    o.nt(d >= 1 && l >= 2);
    o.class_if(l == 0, "mv-0-variables");
    o.class_if(d == 0, "mv-rand-degree-0");
    let p = no_panic("mv.rand", || MvPoly::<F, SparseTerm>::rand(d, l, &mut rng))?;
    ensure_eq!(p.num_vars(), l, "mv.rand.num_vars");
    let deg = p.degree();
    ensure!(deg <= d, "mv.rand.degree", "rand({}, {}) has degree {}", d, l, deg);
    if big_field && l >= 1 {
        // a uniformly random leading coefficient of the 255-bit field is zero with probability 2^-255
        ensure_eq!(deg, d, "mv.rand.degree", "rand({}, {})", d, l);
        ensure_eq!(p.terms().len(), 1 + l * d, "mv.rand.term_count", "rand({}, {})", d, l);
    }
    let mut seen: BTreeMap<Vec<(usize, usize)>, ()> = BTreeMap::new();
    let mut val = F::zero();
    for (c, term) in p.terms() {
        let key: Vec<(usize, usize)> = term.iter().cloned().collect();
        ensure!(key.len() <= 1, "mv.rand.univariate", "rand({}, {}) contains the mixed term {:?}", d, l, key);
        ensure!(key.iter().all(|(v, e)| *v < l && *e >= 1 && *e <= d), "mv.rand.term", "rand({}, {}) contains the term {:?}", d, l, key);
        ensure!(seen.insert(key.clone(), ()).is_none(), "mv.rand.duplicate", "rand({}, {}) stores the monomial {:?} twice", d, l, key);
        val += *c * mono_eval(&key, &x);
    }
    ensure!(p.evaluate(&x) == val, "mv.rand.evaluate", "rand({}, {}) does not evaluate to the sum of its stored terms", d, l);
    Ok(())
}

/// Long term lists (40..=400 terms) over few variables with small exponents, expanded from one tape word: many terms share
/// a monomial (written in different orders / with split exponents) and many distinct monomials share a total degree, which
/// is what the sort + merge of `from_coefficients_vec` and the sorted merge of `Add` have to get right at scale.
fn seeded_terms<F: PrimeField>(seed: u64, nv: usize, nterms: usize, maxpow: u64, small_coeffs: bool) -> Raw<F> {
    let mut out: Raw<F> = Vec::with_capacity(nterms);
    for i in 0..nterms as u64 {
        let mut w = splitmix(seed ^ i.wrapping_mul(0x9e3779b97f4a7c15));
        let len = if nv == 0 { 0 } else { (w % 4) as usize };
        w = splitmix(w);
        let mut m = Vec::with_capacity(len);
        for _ in 0..len {
            let v = (w % nv as u64) as usize;
            w = splitmix(w);
            // small exponent bounds: uniform; larger bounds (powers of two and their neighbours): the bound itself, its
            // neighbours below, or a small exponent
            let e = if maxpow <= 3 {
                (w % (maxpow + 1)) as usize
            } else {
                match w % 4 {
                    0 => maxpow as usize,
                    1 => (maxpow - 1 - (w >> 8) % 2) as usize,
                    _ => ((w >> 8) % 4) as usize,
                }
            };
            w = splitmix(w);
            m.push((v, e));
        }
        let c: F = if small_coeffs {
            // small signed coefficients: sums of merged terms cancel often
            match w % 5 {
                0 => F::zero(),
                1 => F::one(),
                2 => -F::one(),
                3 => F::from(2u64),
                _ => -F::from(2u64),
            }
        } else {
            F::from(splitmix(w)) * F::from(splitmix(w ^ 0x5555))
        };
        out.push((c, m));
    }
    out
}

pub fn many_terms_rel<F: PrimeField>(t: &mut Tape<'_>, o: &mut Obs, max_terms: usize) -> R {
    let nv = t.range(1, 5) as usize;
    let nterms = match t.weighted(&[2, 3, 1]) {
        0 => t.range(21, 40) as usize,
        1 => t.range(40, max_terms as u64 / 2) as usize,
        _ => t.range(max_terms as u64 / 2, max_terms as u64) as usize,
    };
    let maxpow = match t.weighted(&[3, 1]) {
        0 => t.range(1, 3),
        // exponents at and around powers of two (table sizes of power caches)
        _ => t.pick(&[8u64, 7, 9, 16, 17, 31, 32, 33, 63, 64, 65, 128, 255, 256]),
    };
    o.class_if(maxpow > 3, "mv-many-terms-exponents-at-powers-of-two");
    let small = t.bool();
    let (sa, sb) = (t.u64(), t.u64());
    let ra = seeded_terms::<F>(sa, nv, nterms, maxpow, small);
    let mut rb = seeded_terms::<F>(sb, nv, nterms / 2 + 1, maxpow, small);
    if t.bool() {
        // the right operand repeats some of the left operand's terms with the opposite coefficient
        for (i, (c, m)) in ra.iter().enumerate() {
            if splitmix(sb ^ i as u64) % 3 == 0 {
                rb.push((-*c, m.clone()));
            }
        }
        o.class("mv-ops-shared-monomials");
    }
    let f = fe::<F>(t);
    let pts: Vec<Vec<F>> = (0..2).map(|_| gen_pt::<F>(t, nv)).collect();
    let na = normal(&ra);
    o.show(|| format!("multivariate, {} raw terms over {} variables (exponents <= {}) -> {} merged terms; f={} point {}", ra.len(), nv, maxpow, na.len(), f, fmt_vec(&pts[0], 6)));
    o.class("mv-many-terms");
    o.class_if(ra.len() > 100, "mv-more-than-100-terms");
    o.nt(nv >= 2 && na.len() >= 2 && pts.iter().any(|p| !is_boolean(p)));
    o.evals(8);
    let via_slice = t.bool();
    let a = no_panic("from_coefficients", || build(nv, &ra, via_slice))?;
    check_poly(&a, &ra, &pts, "", true)?;
    let b = no_panic("from_coefficients", || build(nv, &rb, !via_slice))?;
    check_poly(&b, &rb, &pts[..1], "rhs.", true)?;
    let cat = |x: &Raw<F>, fx: F, y: &Raw<F>, fy: F| -> Raw<F> {
        x.iter().map(|(c, m)| (*c * fx, m.clone())).chain(y.iter().map(|(c, m)| (*c * fy, m.clone()))).collect()
    };
    let one = F::one();
    // operator results: values, degree, is_zero (the statement asks for pointwise operators, not for a term count)
    check_poly(&no_panic("add.ref", || &a + &b)?, &cat(&ra, one, &rb, one), &pts, "add.ref.", false)?;
    check_poly(&no_panic("sub", || &a - &b)?, &cat(&ra, one, &rb, -one), &pts[..1], "sub.", false)?;
    let mut x = a.clone();
    no_panic("add_assign.scaled", || x += (f, &b))?;
    check_poly(&x, &cat(&ra, one, &rb, f), &pts[..1], "add_assign.scaled.", false)?;
    Ok(())
}
