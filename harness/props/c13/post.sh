#!/bin/bash
# 1. Cross-check of the hash_to_field samples dumped by the run against a Python (hashlib + int) re-implementation.
#    A disagreement cannot be attributed (the Rust run has already found arkworks == sha2/BigUint reference), so it is
#    reported as inconclusive (exit 3 -> ./check prints INCONCLUSIVE), never as a violation.
# 2. The same relations in the profile of an ordinary release build (no debug assertions): tools/variant_stage.sh.
ROOT="${VERIF_ROOT:-/verif}"
HERE="$(cd "$(dirname "$0")" && pwd)"
/usr/bin/python3 "$HERE/rfc9380_ref.py" "$ROOT/harness/target/c13-dump" || exit $?
exec "$ROOT/tools/variant_stage.sh" C13 "${1:-quick}" rel
