#!/usr/bin/python3
"""Second reference for RFC 9380 section 5 (expand_message_xmd with SHA-256, hash_to_field), using only
hashlib and Python integers.  Re-computes the samples dumped by the Rust run (arkworks' outputs that
already agreed with the sha2/BigUint reference) to decorrelate from the sha2 crate and from the Rust reference.
usage: rfc9380_ref.py <dump-dir>      exit 0: all samples agree, 3: disagreement, 4: nothing to check"""
import hashlib, os, sys

def expand_message_xmd(msg, dst, n):
    b, s = 32, 64
    ell = -(-n // b)
    assert ell <= 255 and n <= 65535
    if len(dst) > 255:
        dst = hashlib.sha256(b"H2C-OVERSIZE-DST-" + dst).digest()
    dst_prime = dst + bytes([len(dst)])
    b0 = hashlib.sha256(bytes(s) + msg + n.to_bytes(2, "big") + b"\x00" + dst_prime).digest()
    bi = hashlib.sha256(b0 + b"\x01" + dst_prime).digest()
    out = bi
    for i in range(2, ell + 1):
        bi = hashlib.sha256(bytes(x ^ y for x, y in zip(b0, bi)) + bytes([i]) + dst_prime).digest()
        out += bi
    return out[:n]

def hash_to_field(msg, dst, p, m, count):
    L = -(-(p.bit_length() + 128) // 8)
    u = expand_message_xmd(msg, dst, count * m * L)
    return [int.from_bytes(u[L * k:L * (k + 1)], "big") % p for k in range(count * m)]

def self_test():
    # RFC 9380 appendix K.1, first vector
    got = expand_message_xmd(b"", b"QUUX-V01-CS02-with-expander-SHA256-128", 0x20).hex()
    assert got == "68a985b87eb6b46952128911f2a4412bbc302a9d759667f87f7a21d803f07235", got

def main():
    self_test()
    d = sys.argv[1]
    total = bad = 0
    if not os.path.isdir(d):
        print("C13 post: no dump directory", d)
        return 4
    for fn in sorted(os.listdir(d)):
        for line in open(os.path.join(d, fn)):
            f = line.split()
            if len(f) != 6:
                continue
            msg = b"" if f[0] == "-" else bytes.fromhex(f[0])
            dst = b"" if f[1] == "-" else bytes.fromhex(f[1])
            n, m, p = int(f[2]), int(f[3]), int(f[4], 16)
            want = [int(x, 16) for x in f[5].split(",")]
            total += 1
            if hash_to_field(msg, dst, p, m, n) != want:
                bad += 1
                if bad <= 3:
                    print("C13 post: hashlib reference disagrees on %s: msg=%s dst=%s N=%d" % (fn, f[0][:64], f[1][:64], n))
    print("C13 post: %d dumped hash_to_field samples re-computed with hashlib, %d disagreements" % (total, bad))
    if total == 0:
        return 4
    return 3 if bad else 0

if __name__ == "__main__":
    sys.exit(main())
