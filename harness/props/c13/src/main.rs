//! C13 — hash-to-field and hash-to-curve follow RFC 9380 and always land on the curve.
mod fa;
mod jac;
mod maps;
mod rfc;
mod toys;
mod vectors;

use ark_ec::hashing::curve_maps::elligator2::{Elligator2Config, Elligator2Map};
use ark_ec::hashing::curve_maps::swu::{SWUConfig, SWUMap};
use ark_ec::hashing::curve_maps::wb::{WBConfig, WBMap};
use ark_ec::hashing::map_to_curve_hasher::{MapToCurve, MapToCurveBasedHasher};
use ark_ec::hashing::HashToCurve;
use ark_ec::short_weierstrass::{Affine as SwAffine, Projective as SwProj, SWCurveConfig};
use ark_ec::twisted_edwards::{Affine as TeAffine, MontCurveConfig, Projective as TeProj, TECurveConfig};
use ark_ec::CurveConfig;
use ark_ff::field_hashers::{DefaultFieldHasher, HashToField};
use ark_ff::{Field, PrimeField};
use num_bigint::BigUint;
use num_traits::Zero;
use sha2::digest::FixedOutputReset;
use sha2::{Sha256, Sha512};
use std::sync::{Arc, OnceLock};

use fa::{big_hex, Fa};
use jac::sw_mul_jac;
use maps::*;
use vh_core::curve::{sw_add, sw_mul, te_identity, te_mul, Sw, Te};
use vh_core::engine::{no_panic, Fail, Obs, PropSpec, Rel, Tape, Tier, R};
use vh_core::gen::{big_below, edge_value};
use vh_core::modint::big;
use vh_core::tower::{edge_elem, Elem, OracleRepr};
use vh_core::{ensure, ensure_eq};

// -----------------------------------------------------------------------------------------------
// RFC 9380 section 8.8 constants, typed from the specification (hex), independent of /repo
// -----------------------------------------------------------------------------------------------

const BLS381_P: &str = "1a0111ea397fe69a4b1ba7b6434bacd764774b84f38512bf6730d2a0f6b0f6241eabfffeb153ffffb9feffffffffaaab";
const BLS381_R: &str = "73eda753299d7d483339d80809a1d80553bda402fffe5bfeffffffff00000001";
/// 8.8.1: A' and B' of the curve 11-isogenous to BLS12-381 G1, Z = 11, h_eff
const G1_ISO_A: &str = "144698a3b8e9433d693a02c96d4982b0ea985383ee66a8d8e8981aefd881ac98936f8da0e0f97f5cf428082d584c1d";
const G1_ISO_B: &str = "12e2908d11688030018b12e8753eee3b2016c1f0f24f4070a0b9c14fcef35ef55a23215a316ceaa5d1cc48e98e172be0";
const G1_H_EFF: &str = "d201000000010001";
/// 8.8.2: A' = 240 I, B' = 1012 (1 + I), Z = -(2 + I), h_eff
const G2_H_EFF: &str = "bc69f08f2ee75b3584c6a0ea91b352888e2a8e9145ad7689986ff031508ffe1329c2f178731db956d82bf015d1212b02ec0ec69d7477c1ae954cbc06689f6a359894c0adebbf6b4e8020005aaa95551";

#[derive(Clone, Copy, PartialEq)]
enum Suite {
    /// BLS12381G1_XMD:SHA-256_SSWU_RO_
    G1,
    /// BLS12381G2_XMD:SHA-256_SSWU_RO_
    G2,
    /// not an RFC suite: parameters are read from the configuration
    None,
}

// -----------------------------------------------------------------------------------------------
// contexts
// -----------------------------------------------------------------------------------------------

struct WCtx {
    name: String,
    f: Fa,
    /// E' (the SWU curve): A, B, Z
    pr: SwuParams,
    params_ok: Result<(), String>,
    iso: Option<IsoRef>,
    /// target curve E
    ea: Elem,
    eb: Elem,
    suite: Suite,
    h_eff: Option<BigUint>,
    r: BigUint,
    toy_p: Option<u64>,
    exc: OnceLock<(Vec<Elem>, Vec<(Elem, &'static str)>)>,
}

impl WCtx {
    /// (x-coordinates with a special image, exceptional inputs)
    fn exceptional(&self) -> &(Vec<Elem>, Vec<(Elem, &'static str)>) {
        self.exc.get_or_init(|| {
            let f = &self.f;
            let mut targets: Vec<Elem> = Vec::new();
            // 2-torsion of E': roots of g
            let g = vec![self.pr.b.clone(), self.pr.a.clone(), f.zero(), f.one()];
            for r in f.roots(&g) {
                if !targets.contains(&r) {
                    targets.push(r);
                }
            }
            if let Some(m) = &self.iso {
                for poly in [&m.xd, &m.yd] {
                    for r in f.roots(poly) {
                        if !targets.contains(&r) {
                            targets.push(r);
                        }
                    }
                }
            }
            let exc = if self.params_ok.is_ok() { swu_exceptional(f, &self.pr, &targets) } else { vec![(f.zero(), "exc:u=0")] };
            (targets, exc)
        })
    }
}

fn elems<F: OracleRepr>(v: &[F]) -> Vec<Elem> {
    v.iter().map(|x| x.to_o()).collect()
}

fn scalar_modulus<P: CurveConfig>() -> BigUint {
    big(<P::ScalarField as PrimeField>::MODULUS.as_ref())
}

fn swu_ctx<P: SWUConfig>(name: &str, toy_p: Option<u64>) -> WCtx
where
    P::BaseField: OracleRepr,
{
    let f = Fa::new(<P::BaseField as OracleRepr>::tower());
    let pr = SwuParams { a: P::COEFF_A.to_o(), b: P::COEFF_B.to_o(), z: P::ZETA.to_o() };
    let params_ok = swu_params_ok(&f, &pr);
    WCtx {
        name: name.to_string(),
        ea: pr.a.clone(),
        eb: pr.b.clone(),
        f,
        pr,
        params_ok,
        iso: None,
        suite: Suite::None,
        h_eff: None,
        r: scalar_modulus::<P>(),
        toy_p,
        exc: OnceLock::new(),
    }
}

fn wb_ctx<P: WBConfig>(name: &str, suite: Suite, toy_p: Option<u64>) -> WCtx
where
    P::BaseField: OracleRepr,
{
    let f = Fa::new(<P::BaseField as OracleRepr>::tower());
    let m = &P::ISOGENY_MAP;
    let iso = IsoRef { xn: elems(m.x_map_numerator), xd: elems(m.x_map_denominator), yn: elems(m.y_map_numerator), yd: elems(m.y_map_denominator) };
    let (pr, ea, eb, h_eff) = match suite {
        Suite::G1 => (
            SwuParams { a: Elem::P(big_hex(G1_ISO_A)), b: Elem::P(big_hex(G1_ISO_B)), z: f.int(11) },
            f.int(0),
            f.int(4),
            Some(big_hex(G1_H_EFF)),
        ),
        Suite::G2 => {
            let e2 = |c0: i64, c1: i64| f.tw.unflatten(&[lift(&f, c0), lift(&f, c1)]);
            (SwuParams { a: e2(0, 240), b: e2(1012, 1012), z: e2(-2, -1) }, f.int(0), e2(4, 4), Some(big_hex(G2_H_EFF)))
        },
        Suite::None => (
            SwuParams {
                a: <P::IsogenousCurve as SWCurveConfig>::COEFF_A.to_o(),
                b: <P::IsogenousCurve as SWCurveConfig>::COEFF_B.to_o(),
                z: <P::IsogenousCurve as SWUConfig>::ZETA.to_o(),
            },
            P::COEFF_A.to_o(),
            P::COEFF_B.to_o(),
            None,
        ),
    };
    let params_ok = swu_params_ok(&f, &pr);
    let r = if suite == Suite::None { scalar_modulus::<P>() } else { big_hex(BLS381_R) };
    WCtx { name: name.to_string(), f, pr, params_ok, iso: Some(iso), ea, eb, suite, h_eff, r, toy_p, exc: OnceLock::new() }
}

/// small signed integer as a canonical prime-field residue
fn lift(f: &Fa, v: i64) -> BigUint {
    let p = &f.prime.p;
    if v < 0 {
        p - BigUint::from(v.unsigned_abs())
    } else {
        BigUint::from(v as u64)
    }
}

// -----------------------------------------------------------------------------------------------
// generators
// -----------------------------------------------------------------------------------------------

fn gen_bytes(t: &mut Tape<'_>, len: usize) -> Vec<u8> {
    match t.weighted(&[8, 1, 1]) {
        0 => t.bytes(len),
        1 => vec![0u8; len],
        _ => vec![0xffu8; len],
    }
}

/// message of 0..=300 bytes; lengths around the SHA-256 block / padding boundaries are favoured
fn gen_msg(t: &mut Tape<'_>) -> Vec<u8> {
    let len = match t.weighted(&[1, 2, 2, 5]) {
        0 => 0,
        1 => t.range(1, 8) as usize,
        2 => t.pick(&[52usize, 53, 54, 55, 56, 63, 64, 65, 116, 117, 118, 119, 120, 127, 128, 129, 255, 256, 300]),
        _ => t.range(0, 300) as usize,
    };
    gen_bytes(t, len)
}

/// domain separation tag of 0..=400 bytes, crossing the 255-byte limit
fn gen_dst(t: &mut Tape<'_>, o: &mut Obs) -> Vec<u8> {
    let len = match t.weighted(&[3, 2, 1, 4, 4, 2, 1]) {
        0 => t.range(17, 64) as usize,
        1 => t.range(1, 16) as usize,
        2 => 0,
        3 => t.pick(&[253usize, 254, 255, 256, 257, 258]),
        4 => t.range(256, 400) as usize,
        5 => t.range(65, 252) as usize,
        _ => 400,
    };
    o.class_if(len == 0, "dst-empty");
    o.class_if(len == 255, "dst-255");
    o.class_if(len == 256, "dst-256");
    o.class_if(len > 255, "dst-oversize");
    gen_bytes(t, len)
}

fn hexb(b: &[u8]) -> String {
    let n = b.len().min(12);
    let s: String = b[..n].iter().map(|x| format!("{:02x}", x)).collect();
    format!("{}B:{}{}", b.len(), s, if b.len() > n { ".." } else { "" })
}

/// field element for the maps: 0, ±1, exceptional inputs, edge values, c0 = 0, uniform
fn gen_u(t: &mut Tape<'_>, f: &Fa, exc: &[(Elem, &'static str)], toy_p: Option<u64>) -> (Elem, &'static str) {
    if let Some(p) = toy_p {
        return (Elem::P(BigUint::from(t.below(p))), "toy");
    }
    let d = f.tw.degree();
    match t.weighted(&[1, 1, 1, 5, 4, 2, 7]) {
        0 => (f.zero(), "u=0"),
        1 => (f.one(), "u=1"),
        2 => (f.int(-1), "u=-1"),
        3 if exc.len() > 1 => {
            let (e, c) = &exc[t.idx(exc.len())];
            (e.clone(), *c)
        },
        4 => (edge_elem(t, &f.tw, &f.prime).0, "u=edge"),
        5 => {
            if d > 1 {
                let mut c: Vec<BigUint> = (0..d).map(|_| edge_value(t, &f.prime).0).collect();
                c[0] = BigUint::zero();
                (f.tw.unflatten(&c), "u.c0=0")
            } else {
                (Elem::P(BigUint::from(t.below(1 << 16))), "u=small")
            }
        },
        _ => {
            let c: Vec<BigUint> = (0..d).map(|_| big_below(t, &f.prime.p)).collect();
            (f.tw.unflatten(&c), "u=uniform")
        },
    }
}

fn c0_zero(f: &Fa, u: &Elem) -> bool {
    f.tw.degree() > 1 && !f.is_zero(u) && f.tw.flatten(u)[0].is_zero()
}

// -----------------------------------------------------------------------------------------------
// conversions between the BigUint tower and the oracle curve types
// -----------------------------------------------------------------------------------------------

fn to_sw<F: OracleRepr>(p: &Pt) -> Sw<F> {
    match p {
        None => Sw::Inf,
        Some((x, y)) => Sw::Aff(F::from_o(x), F::from_o(y)),
    }
}
fn from_sw<F: OracleRepr>(p: &Sw<F>) -> Pt {
    match p {
        Sw::Inf => None,
        Sw::Aff(x, y) => Some((x.to_o(), y.to_o())),
    }
}
fn from_affine<P: SWCurveConfig>(p: &SwAffine<P>) -> Pt
where
    P::BaseField: OracleRepr,
{
    if p.infinity {
        None
    } else {
        Some((p.x.to_o(), p.y.to_o()))
    }
}
fn show_pt(f: &Fa, p: &Pt) -> String {
    match p {
        None => "O".into(),
        Some((x, y)) => format!("({}, {})", f.hex(x), f.hex(y)),
    }
}
fn err<E: core::fmt::Display>(sig: &str) -> impl Fn(E) -> Fail + '_ {
    move |e| Fail { sig: sig.to_string(), msg: format!("{}: returned Err({})", sig, e) }
}

// -----------------------------------------------------------------------------------------------
// hash_to_field
// -----------------------------------------------------------------------------------------------

/// Every 10th passing hash_to_field case is appended to `$VERIF_ROOT/harness/target/c13-dump/<relation>.txt`
/// (msg, dst, N, m, p, arkworks' output, all hex) for the hashlib cross-check of `post.sh`. Output only:
/// nothing is ever read back, so verdicts do not depend on it.
struct Dump {
    path: std::path::PathBuf,
    state: std::sync::Mutex<(u64, Option<std::fs::File>)>,
}

impl Dump {
    fn new(rel: &str) -> Dump {
        let root = std::env::var("VERIF_ROOT").unwrap_or_else(|_| "/verif".to_string());
        let safe: String = rel.chars().map(|c| if c.is_ascii_alphanumeric() || c == '.' { c } else { '_' }).collect();
        Dump { path: std::path::Path::new(&root).join("harness/target/c13-dump").join(format!("{}.txt", safe)), state: std::sync::Mutex::new((0, None)) }
    }
    fn record(&self, strict: bool, line: impl FnOnce() -> String) {
        use std::io::Write;
        if strict {
            return; // replay mode
        }
        let mut st = self.state.lock().unwrap();
        st.0 += 1;
        if st.0 % 10 != 1 {
            return;
        }
        if st.1.is_none() {
            if let Some(d) = self.path.parent() {
                let _ = std::fs::create_dir_all(d);
            }
            st.1 = std::fs::File::create(&self.path).ok();
        }
        if let Some(f) = st.1.as_mut() {
            let _ = writeln!(f, "{}", line());
        }
    }
}

fn hexs(b: &[u8]) -> String {
    if b.is_empty() {
        "-".to_string()
    } else {
        b.iter().map(|x| format!("{:02x}", x)).collect()
    }
}

fn h2f_n<F: Field, H: FixedOutputReset + Default + Clone, const N: usize>(dst: &[u8], msg: &[u8]) -> Vec<F> {
    let h = <DefaultFieldHasher<H, 128> as HashToField<F>>::new(dst);
    let a: [F; N] = h.hash_to_field::<N>(msg);
    a.to_vec()
}

fn h2f_any<F: Field, H: FixedOutputReset + Default + Clone>(n: usize, dst: &[u8], msg: &[u8]) -> Vec<F> {
    match n {
        1 => h2f_n::<F, H, 1>(dst, msg),
        2 => h2f_n::<F, H, 2>(dst, msg),
        3 => h2f_n::<F, H, 3>(dst, msg),
        4 => h2f_n::<F, H, 4>(dst, msg),
        _ => h2f_n::<F, H, 8>(dst, msg),
    }
}

/// `hash_to_field::<N>` equals RFC 9380 section 5.2 (fields whose L equals the SHA-256 block size, see O2)
fn h2f_rel<F: OracleRepr>(f: &Fa, name: &str, dump: &Dump, t: &mut Tape<'_>, o: &mut Obs) -> R {
    let n = t.pick(&[2usize, 1, 3, 4, 8]);
    let dst = gen_dst(t, o);
    let msg = gen_msg(t);
    let m = f.tw.degree();
    let l = rfc::len_per_elem(&f.prime.p, 128);
    let blocks = (n * m * l + 31) / 32;
    o.show(|| format!("{}: hash_to_field::<{}> msg={} dst={} ({} blocks)", name, n, hexb(&msg), hexb(&dst), blocks));
    o.nt(dst.len() > 255 || blocks >= 2);
    o.class_if(msg.is_empty(), "msg-empty");
    o.class_if(blocks > 8, "blocks>8");
    o.evals(2);
    let got: Vec<F> = no_panic("hash_to_field", || h2f_any::<F, Sha256>(n, &dst, &msg))?;
    let again: Vec<F> = no_panic("hash_to_field", || h2f_any::<F, Sha256>(n, &dst, &msg))?;
    ensure!(got == again, "hash_to_field.determinism", "two fresh hashers disagree");
    ensure!(got.iter().all(|x| x.canonical()), "hash_to_field.noncanonical", "non-canonical coordinate");
    let want = rfc::hash_to_field(&msg, &dst, &f.prime.p, m, n);
    let got_c: Vec<Vec<BigUint>> = got.iter().map(|x| f.tw.flatten(&x.to_o())).collect();
    if got_c != want {
        let i = (0..n).find(|i| got_c[*i] != want[*i]).unwrap();
        return vh_core::fail(
            "hash_to_field.rfc",
            format!("element {} of {}: got {:x?} expected {:x?} (msg {} bytes, dst {} bytes)", i, n, got_c[i], want[i], msg.len(), dst.len()),
        );
    }
    dump.record(o.strict, || {
        let outs: Vec<String> = got_c.iter().flatten().map(|c| format!("{:x}", c)).collect();
        format!("{} {} {} {} {:x} {}", hexs(&msg), hexs(&dst), n, m, f.prime.p, outs.join(","))
    });
    Ok(())
}

/// fields for which L differs from the block size of the hash (O2): determinism and canonicity only
/// Security parameters other than 128: `DefaultFieldHasher<Sha256, K>` for the K that keep L = 64 on a 381-bit field
/// (124..=131), so that RFC 9380 equality can still be claimed (observation O2). L rounds the *sum* bits + k up to
/// bytes; K not divisible by 8 distinguishes that from rounding the two terms separately.
fn h2f_k<F: Field, const K: usize>(dst: &[u8], msg: &[u8]) -> Vec<F> {
    let h = <DefaultFieldHasher<Sha256, K> as HashToField<F>>::new(dst);
    let a: [F; 2] = h.hash_to_field::<2>(msg);
    a.to_vec()
}

fn h2f_secparam_rel<F: OracleRepr>(f: &Fa, name: &str, t: &mut Tape<'_>, o: &mut Obs) -> R {
    let k = t.pick(&[125usize, 124, 126, 127, 129, 130, 131]);
    let dst = gen_dst(t, o);
    let msg = gen_msg(t);
    let m = f.tw.degree();
    assert_eq!(rfc::len_per_elem(&f.prime.p, k), 64);
    o.show(|| format!("{}: DefaultFieldHasher<Sha256, {}>::hash_to_field::<2> msg={} dst={}", name, k, hexb(&msg), hexb(&dst)));
    o.nt(true);
    o.class_if(k % 8 != 0, "sec-param-not-multiple-of-8");
    let got: Vec<F> = no_panic("hash_to_field", || match k {
        124 => h2f_k::<F, 124>(&dst, &msg),
        125 => h2f_k::<F, 125>(&dst, &msg),
        126 => h2f_k::<F, 126>(&dst, &msg),
        127 => h2f_k::<F, 127>(&dst, &msg),
        129 => h2f_k::<F, 129>(&dst, &msg),
        130 => h2f_k::<F, 130>(&dst, &msg),
        _ => h2f_k::<F, 131>(&dst, &msg),
    })?;
    let want = rfc::hash_to_field_k(&msg, &dst, &f.prime.p, m, 2, k);
    let got_c: Vec<Vec<BigUint>> = got.iter().map(|x| f.tw.flatten(&x.to_o())).collect();
    ensure!(got_c == want, "hash_to_field.rfc.sec-param", "k = {}: got {:x?} expected {:x?}", k, got_c, want);
    Ok(())
}

fn h2f_det_rel<F: OracleRepr, H: FixedOutputReset + Default + Clone>(name: &str, t: &mut Tape<'_>, o: &mut Obs) -> R {
    let n = t.pick(&[2usize, 1, 3, 4, 8]);
    let dst = gen_dst(t, o);
    let msg = gen_msg(t);
    o.show(|| format!("{}: hash_to_field::<{}> msg={} dst={} (determinism only)", name, n, hexb(&msg), hexb(&dst)));
    o.nt(dst.len() > 255 || n >= 2);
    let got: Vec<F> = no_panic("hash_to_field", || h2f_any::<F, H>(n, &dst, &msg))?;
    let again: Vec<F> = no_panic("hash_to_field", || h2f_any::<F, H>(n, &dst, &msg))?;
    ensure!(got == again, "hash_to_field.determinism", "two fresh hashers disagree");
    ensure!(got.iter().all(|x| x.canonical()), "hash_to_field.noncanonical", "non-canonical coordinate");
    Ok(())
}

/// Long outputs: `hash_to_field::<N>` for N up to the largest count the XMD expander accepts (ell = ceil(N*m*L/32) <= 255;
/// with L = 64: N*m <= 127), i.e. 33..=254 SHA-256 blocks where the ordinary relation stops at 32.
fn h2f_long_any<F: Field>(n: usize, dst: &[u8], msg: &[u8]) -> Vec<F> {
    match n {
        5 => h2f_n::<F, Sha256, 5>(dst, msg),
        7 => h2f_n::<F, Sha256, 7>(dst, msg),
        16 => h2f_n::<F, Sha256, 16>(dst, msg),
        17 => h2f_n::<F, Sha256, 17>(dst, msg),
        32 => h2f_n::<F, Sha256, 32>(dst, msg),
        33 => h2f_n::<F, Sha256, 33>(dst, msg),
        63 => h2f_n::<F, Sha256, 63>(dst, msg),
        64 => h2f_n::<F, Sha256, 64>(dst, msg),
        100 => h2f_n::<F, Sha256, 100>(dst, msg),
        127 => h2f_n::<F, Sha256, 127>(dst, msg),
        128 => h2f_n::<F, Sha256, 128>(dst, msg),
        129 => h2f_n::<F, Sha256, 129>(dst, msg),
        200 => h2f_n::<F, Sha256, 200>(dst, msg),
        _ => unreachable!("count not instantiated"),
    }
}

fn h2f_long_rel<F: OracleRepr>(f: &Fa, name: &str, t: &mut Tape<'_>, o: &mut Obs) -> R {
    let m = f.tw.degree();
    let l = rfc::len_per_elem(&f.prime.p, 128);
    // counts admissible for this field: ell = ceil(n*m*l/32) <= 255
    let all = [63usize, 5, 7, 16, 17, 32, 33, 64, 100, 127];
    let ok: Vec<usize> = all.iter().copied().filter(|n| (n * m * l + 31) / 32 <= 255).collect();
    let n = ok[t.idx(ok.len())];
    let dst = gen_dst(t, o);
    let msg = gen_msg(t);
    let blocks = (n * m * l + 31) / 32;
    o.show(|| format!("{}: hash_to_field::<{}> msg={} dst={} ({} blocks)", name, n, hexb(&msg), hexb(&dst), blocks));
    o.nt(true);
    o.class_if(blocks > 32, "blocks>32");
    o.class_if(blocks > 64, "blocks>64");
    o.class_if(blocks > 128, "blocks>128");
    o.class_if(blocks >= 252, "blocks>=252(max)");
    o.evals(1);
    let got: Vec<F> = no_panic("hash_to_field", || h2f_long_any::<F>(n, &dst, &msg))?;
    ensure!(got.len() == n, "hash_to_field.count", "asked for {} elements, got {}", n, got.len());
    ensure!(got.iter().all(|x| x.canonical()), "hash_to_field.noncanonical", "non-canonical coordinate");
    let want = rfc::hash_to_field(&msg, &dst, &f.prime.p, m, n);
    let got_c: Vec<Vec<BigUint>> = got.iter().map(|x| f.tw.flatten(&x.to_o())).collect();
    if got_c != want {
        let i = (0..n).find(|i| got_c[*i] != want[*i]).unwrap();
        return vh_core::fail(
            "hash_to_field.rfc.long",
            format!("element {} of {}: got {:x?} expected {:x?} (msg {} bytes, dst {} bytes, {} blocks)", i, n, got_c[i], want[i], msg.len(), dst.len(), blocks),
        );
    }
    Ok(())
}

/// Requests beyond the limit of expand_message_xmd (ell = ceil(len_in_bytes / 32) > 255): RFC 9380 section 5.3.1 says
/// ABORT; the library aborts by panicking. Returning field elements for such a request is an output the reference does
/// not have.
fn h2f_too_long_rel<F: OracleRepr>(f: &Fa, name: &str, t: &mut Tape<'_>, o: &mut Obs) -> R {
    let m = f.tw.degree();
    let l = rfc::len_per_elem(&f.prime.p, 128);
    let all = [64usize, 100, 127, 128, 129, 200];
    let over: Vec<usize> = all.iter().copied().filter(|n| (n * m * l + 31) / 32 > 255).collect();
    let n = over[t.idx(over.len())];
    let dst = gen_dst(t, o);
    let msg = gen_msg(t);
    let blocks = (n * m * l + 31) / 32;
    o.show(|| format!("{}: hash_to_field::<{}> msg={} dst={} ({} blocks: beyond the limit of 255)", name, n, hexb(&msg), hexb(&dst), blocks));
    o.nt(true);
    o.class_if(blocks == 256, "blocks=256");
    // the engine's panic hook is quiet and records the message per thread; an expected abort is simply caught here
    let r = std::panic::catch_unwind(std::panic::AssertUnwindSafe(|| h2f_long_any::<F>(n, &dst, &msg)));
    match r {
        Err(_) => Ok(()),
        Ok(v) => vh_core::fail("hash_to_field.too-long.accepted", format!("a request for {} elements ({} blocks > 255) returned {} field elements instead of aborting", n, blocks, v.len())),
    }
}

/// `curve_maps::parity` (documented as sgn0 of RFC 9380 section 4.1) called directly: parity of the first non-zero
/// prime-field coordinate, false for zero.  Elements: edge values per coordinate, with a prefix of the coordinates forced
/// to zero (so that the deciding coordinate is the second one, with either parity), 0, p-1, (p-1)/2, (p+1)/2.
fn parity_rel<F: OracleRepr>(f: &Fa, name: &str, t: &mut Tape<'_>, o: &mut Obs) -> R {
    let d = f.tw.degree();
    let mut c: Vec<BigUint> = (0..d).map(|_| edge_value(t, &f.prime).0).collect();
    let zero_prefix = t.below(d as u64 + 1) as usize; // 0..=d leading coordinates forced to zero
    for ci in c.iter_mut().take(zero_prefix) {
        *ci = BigUint::zero();
    }
    let x = f.tw.unflatten(&c);
    let first_nz = c.iter().position(|v| !v.is_zero());
    o.show(|| format!("{}: parity({})", name, f.hex(&x)));
    o.nt(first_nz.map_or(false, |i| i > 0));
    o.class(match first_nz {
        None => "parity:zero",
        Some(0) => "parity:decided-by-c0",
        Some(_) => "parity:decided-by-later-coordinate",
    });
    let want = f.sgn0(&x);
    o.class_if(want, "parity:odd");
    let got = no_panic("parity", || ark_ec::hashing::curve_maps::parity(&F::from_o(&x)))?;
    ensure!(got == want, "parity", "parity({}) = {} but sgn0 = {}", f.hex(&x), got, want);
    // sgn0(-x) = !sgn0(x) for x != 0 in odd characteristic (metamorphic, via the library's negation)
    if first_nz.is_some() {
        let neg = -F::from_o(&x);
        let got_neg = no_panic("parity", || ark_ec::hashing::curve_maps::parity(&neg))?;
        ensure!(got_neg != got, "parity.neg", "parity(-x) = parity(x) = {} for x = {}", got, f.hex(&x));
    }
    Ok(())
}

/// A byte stream handed to the library as an extendable-output reader; records how it was consumed.
struct StreamXof {
    data: Vec<u8>,
    pos: usize,
    reads: Vec<usize>,
}

impl sha2::digest::XofReader for StreamXof {
    fn read(&mut self, buffer: &mut [u8]) {
        self.reads.push(buffer.len());
        for b in buffer.iter_mut() {
            *b = self.data.get(self.pos).copied().unwrap_or(0);
            self.pos += 1;
        }
    }
}

fn h2f_xof_call<F: Field, const K: usize>(x: &mut StreamXof) -> F {
    ark_ff::field_hashers::hash_to_field::<F, StreamXof, K>(x)
}

/// The XOF-reader entry point `field_hashers::hash_to_field::<F, H, SEC_PARAM>(&mut reader)`: one element of F from the
/// next m*L bytes of the stream, L = ceil((ceil(log2 p) + k)/8), coordinate j = OS2IP(bytes[jL..(j+1)L]) mod p
/// (RFC 9380 section 5.2 steps 4-8 for one element).  The stream is chosen by the tape, so each L-byte window can be
/// zero, all ones, c*p + small (reduces to a small value / to p-1) or the largest multiple of p that fits.
fn h2f_xof_rel<F: OracleRepr>(f: &Fa, name: &str, t: &mut Tape<'_>, o: &mut Obs) -> R {
    let k = t.pick(&[128usize, 0, 127, 256]);
    let m = f.tw.degree();
    let p = &f.prime.p;
    let l = rfc::len_per_elem(p, k);
    let cap = BigUint::from(1u8) << (8 * l);
    let mut data: Vec<u8> = Vec::new();
    let mut classes: Vec<&'static str> = Vec::new();
    // m windows for the element under test, then one more window that must stay unread
    for _ in 0..m + 1 {
        let (v, cls): (BigUint, &'static str) = match t.weighted(&[6, 1, 1, 3, 2]) {
            0 => (BigUint::from_bytes_be(&t.bytes(l)), "window=random"),
            1 => (BigUint::zero(), "window=zero"),
            2 => (&cap - 1u32, "window=all-ones"),
            3 => {
                // c*p + d with d in {-2..2}, c below cap/p
                let cmax = &cap / p;
                let c = if cmax.is_zero() { BigUint::zero() } else { big_below(t, &(&cmax + 1u32)) };
                let d = t.below(5);
                let base = &c * p;
                let v = if d >= 2 { base + (d - 2) } else if base >= BigUint::from(2 - d) { base - (2 - d) } else { base };
                (if v < cap { v } else { &cap - 1u32 }, "window=multiple-of-p+-2")
            },
            _ => {
                let top = (&cap - 1u32) / p * p;
                (top, "window=largest-multiple-of-p")
            },
        };
        let mut b = v.to_bytes_be();
        while b.len() < l {
            b.insert(0, 0);
        }
        data.extend_from_slice(&b[b.len() - l..]);
        classes.push(cls);
    }
    o.show(|| format!("{}: hash_to_field::<F, XofReader, {}>: L={} stream={}", name, k, l, hexs(&data[..m * l])));
    for c in &classes[..m] {
        o.class(c);
    }
    o.class(match k {
        128 => "k=128",
        0 => "k=0",
        127 => "k=127",
        _ => "k=256",
    });
    o.nt(true);
    o.evals(2);
    let mut x = StreamXof { data: data.clone(), pos: 0, reads: Vec::new() };
    let got: F = no_panic("hash_to_field.xof", || match k {
        128 => h2f_xof_call::<F, 128>(&mut x),
        0 => h2f_xof_call::<F, 0>(&mut x),
        127 => h2f_xof_call::<F, 127>(&mut x),
        _ => h2f_xof_call::<F, 256>(&mut x),
    })?;
    ensure!(got.canonical(), "hash_to_field.xof.noncanonical", "non-canonical coordinate");
    let want: Vec<BigUint> = (0..m).map(|j| BigUint::from_bytes_be(&data[j * l..(j + 1) * l]) % p).collect();
    let got_c = f.tw.flatten(&got.to_o());
    ensure!(got_c == want, "hash_to_field.xof", "k={} L={}: got {:x?} expected {:x?} for stream {}", k, l, got_c, want, hexs(&data[..m * l]));
    ensure!(x.pos == m * l, "hash_to_field.xof.consumed", "consumed {} bytes of the stream (reads {:?}), expected m*L = {}", x.pos, x.reads, m * l);
    Ok(())
}

// -----------------------------------------------------------------------------------------------
// maps
// -----------------------------------------------------------------------------------------------

/// simplified SWU onto E': on the curve, sgn0(y) = sgn0(u); equality with RFC 6.6.2 for the RFC suites
fn swu_rel<P: SWUConfig>(c: &WCtx, t: &mut Tape<'_>, o: &mut Obs) -> R
where
    P::BaseField: OracleRepr,
{
    let f = &c.f;
    let (targets, exc) = c.exceptional();
    let (u, cls) = gen_u(t, f, exc, c.toy_p);
    o.class(cls);
    o.show(|| format!("{}: SWU map_to_curve(u = {}) [{}]", c.name, f.hex(&u), cls));
    let reference = if c.params_ok.is_ok() { Some(swu(f, &c.pr, &u)) } else { None };
    if let Some(((x, _), tr)) = &reference {
        let special = tr.tv1_zero || tr.y_zero || targets.contains(x);
        o.class_if(tr.tv1_zero, "swu:tv1=0");
        o.class_if(tr.y_zero, "swu:y=0");
        o.class_if(targets.contains(x), "swu:x-in-kernel-or-2-torsion");
        o.class_if(tr.gx1_square, "swu:gx1-square");
        o.nt(special || c0_zero(f, &u));
    }
    o.class_if(c0_zero(f, &u), "u.c0=0");
    let uf = P::BaseField::from_o(&u);
    let pt = no_panic("swu.map_to_curve", || SWUMap::<P>::map_to_curve(uf))?.map_err(err("swu.map_to_curve"))?;
    ensure!(!pt.infinity, "swu.infinity", "SWU returned the point at infinity for u = {}", f.hex(&u));
    let got: Pt = from_affine(&pt);
    ensure!(
        sw_on_curve(f, &c.pr.a, &c.pr.b, &got),
        "swu.off-curve",
        "SWU image {} of u = {} is not on E'",
        show_pt(f, &got),
        f.hex(&u)
    );
    let (_, y) = got.as_ref().unwrap();
    ensure!(
        f.is_zero(y) || f.sgn0(y) == f.sgn0(&u),
        "swu.sign",
        "sgn0(y) != sgn0(u) for u = {}: image {}",
        f.hex(&u),
        show_pt(f, &got)
    );
    if c.suite != Suite::None {
        let (want, _) = reference.expect("RFC parameters are valid");
        ensure!(got == Some(want.clone()), "swu.rfc", "u = {}: got {} expected {}", f.hex(&u), show_pt(f, &got), show_pt(f, &Some(want)));
    }
    Ok(())
}

/// SWU followed by the isogeny: image on E (identity allowed); equality with the reference for the RFC suites
fn wb_rel<P: WBConfig>(c: &WCtx, t: &mut Tape<'_>, o: &mut Obs) -> R
where
    P::BaseField: OracleRepr,
{
    let f = &c.f;
    let (targets, exc) = c.exceptional();
    let (u, cls) = gen_u(t, f, exc, c.toy_p);
    o.class(cls);
    o.show(|| format!("{}: WB map_to_curve(u = {}) [{}]", c.name, f.hex(&u), cls));
    let reference = if c.params_ok.is_ok() {
        let (q, tr) = swu(f, &c.pr, &u);
        let img = iso(f, c.iso.as_ref().unwrap(), &Some(q.clone()));
        o.class_if(img.is_none(), "wb:kernel->identity");
        o.class_if(tr.tv1_zero, "swu:tv1=0");
        o.class_if(tr.y_zero, "swu:y=0");
        o.nt(tr.tv1_zero || tr.y_zero || targets.contains(&q.0) || c0_zero(f, &u));
        Some(img)
    } else {
        None
    };
    o.class_if(c0_zero(f, &u), "u.c0=0");
    let uf = P::BaseField::from_o(&u);
    let pt = no_panic("wb.map_to_curve", || WBMap::<P>::map_to_curve(uf))?.map_err(err("wb.map_to_curve"))?;
    let got: Pt = from_affine(&pt);
    // RFC 9380 section 6.6.3 / appendix E: a point in the kernel of the isogeny (zero denominator) maps to the
    // identity. Own signature, so that this one exceptional class can be tracked separately from `wb.off-curve`.
    if ark_swu_in_kernel::<P>(c, uf)? {
        o.class("wb:arkworks-swu-point-in-kernel");
        o.nt(true);
        ensure!(
            got.is_none(),
            "wb.kernel",
            "u = {}: the SWU image lies in the kernel of the isogeny (x_den = 0 or y_den = 0), RFC 9380 requires the identity, got {} ({})",
            f.hex(&u),
            show_pt(f, &got),
            if sw_on_curve(f, &c.ea, &c.eb, &got) { "on E" } else { "not on E" }
        );
    }
    ensure!(
        sw_on_curve(f, &c.ea, &c.eb, &got),
        "wb.off-curve",
        "WB image {} of u = {} is not on E (reference: {})",
        show_pt(f, &got),
        f.hex(&u),
        reference.as_ref().map(|r| show_pt(f, r)).unwrap_or_default()
    );
    if c.suite != Suite::None {
        let want = reference.unwrap();
        ensure!(got == want, "wb.rfc", "u = {}: got {} expected {}", f.hex(&u), show_pt(f, &got), show_pt(f, &want));
    }
    Ok(())
}

/// does arkworks' own SWU image of u lie in the kernel of the configured isogeny?
fn ark_swu_in_kernel<P: WBConfig>(c: &WCtx, uf: P::BaseField) -> Result<bool, Fail>
where
    P::BaseField: OracleRepr,
{
    let f = &c.f;
    let m = c.iso.as_ref().unwrap();
    let q = no_panic("swu.map_to_curve", || SWUMap::<P::IsogenousCurve>::map_to_curve(uf))?.map_err(err("swu.map_to_curve"))?;
    if q.infinity {
        return Ok(false);
    }
    let x = q.x.to_o();
    Ok(f.is_zero(&f.peval(&m.xd, &x)) || f.is_zero(&f.peval(&m.yd, &x)))
}

/// the configured rational map is a group homomorphism E' -> E (so the constants describe an isogeny)
fn iso_rel<P: WBConfig>(c: &WCtx, t: &mut Tape<'_>, o: &mut Obs) -> R
where
    P::BaseField: OracleRepr,
{
    let f = &c.f;
    ensure!(c.params_ok.is_ok(), "iso.params", "SWU parameters of E' unusable: {:?}", c.params_ok);
    let (_, exc) = c.exceptional();
    let m = c.iso.as_ref().unwrap();
    let (u1, _) = gen_u(t, f, exc, c.toy_p);
    let p1: Pt = Some(swu(f, &c.pr, &u1).0);
    let kind = t.weighted(&[6, 1, 1, 1]);
    let p2: Pt = match kind {
        0 => Some(swu(f, &c.pr, &gen_u(t, f, exc, c.toy_p).0).0),
        1 => p1.clone(),
        2 => p1.clone().map(|(x, y)| (x, f.neg(&y))),
        _ => None,
    };
    o.class(["iso:P+Q", "iso:P+P", "iso:P-P", "iso:P+O"][kind]);
    o.show(|| format!("{}: iso(P+Q) = iso(P)+iso(Q), P = {}, Q = {}", c.name, show_pt(f, &p1), show_pt(f, &p2)));
    ensure!(sw_on_curve(f, &c.pr.a, &c.pr.b, &p1) && sw_on_curve(f, &c.pr.a, &c.pr.b, &p2), "oracle.swu-off-curve", "reference SWU left E'");
    let a_iso = P::BaseField::from_o(&c.pr.a);
    let a_e = P::BaseField::from_o(&c.ea);
    let sum = from_sw(&sw_add(&a_iso, &to_sw::<P::BaseField>(&p1), &to_sw::<P::BaseField>(&p2)));
    let (i1, i2, is) = (iso(f, m, &p1), iso(f, m, &p2), iso(f, m, &sum));
    o.nt(kind == 0 || i1.is_none() || i2.is_none());
    o.class_if(i1.is_none() || i2.is_none() || (is.is_none() && sum.is_some()), "iso:kernel");
    for (w, p) in [("P", &i1), ("Q", &i2), ("P+Q", &is)] {
        ensure!(sw_on_curve(f, &c.ea, &c.eb, p), "iso.off-curve", "iso({}) = {} is not on E", w, show_pt(f, p));
    }
    let rhs = from_sw(&sw_add(&a_e, &to_sw::<P::BaseField>(&i1), &to_sw::<P::BaseField>(&i2)));
    ensure!(is == rhs, "iso.additive", "iso(P+Q) = {} but iso(P)+iso(Q) = {}", show_pt(f, &is), show_pt(f, &rhs));
    Ok(())
}

// -----------------------------------------------------------------------------------------------
// hash_to_curve
// -----------------------------------------------------------------------------------------------

type WbHasher<P, H> = MapToCurveBasedHasher<SwProj<P>, DefaultFieldHasher<H, 128>, WBMap<P>>;
type SwuHasher<P, H> = MapToCurveBasedHasher<SwProj<P>, DefaultFieldHasher<H, 128>, SWUMap<P>>;
type EllHasher<P, H> = MapToCurveBasedHasher<TeProj<P>, DefaultFieldHasher<H, 128>, Elligator2Map<P>>;

fn sw_hash_common<P: SWCurveConfig, HC: HashToCurve<SwProj<P>>>(c: &WCtx, msg: &[u8], dst: &[u8]) -> Result<SwAffine<P>, Fail>
where
    P::BaseField: OracleRepr,
{
    let f = &c.f;
    let p1 = no_panic("hash", || HC::new(dst).and_then(|h| h.hash(msg)))?.map_err(err("hash"))?;
    let p2 = no_panic("hash", || HC::new(dst).and_then(|h| h.hash(msg)))?.map_err(err("hash"))?;
    ensure!(p1 == p2, "hash.determinism", "two fresh hashers disagree");
    let got: Pt = from_affine(&p1);
    ensure!(sw_on_curve(f, &c.ea, &c.eb, &got), "hash.off-curve", "hash {} is not on the curve", show_pt(f, &got));
    // prime-order subgroup: r * P = O with the oracle's double-and-add
    let a_e = P::BaseField::from_o(&c.ea);
    let rp = sw_mul_jac(&a_e, &to_sw::<P::BaseField>(&got), &c.r);
    ensure!(rp == Sw::Inf, "hash.subgroup", "r * hash != O for hash = {}", show_pt(f, &got));
    Ok(p1)
}

/// full hash_to_curve of a WB configuration
fn hash_wb_rel<P: WBConfig>(c: &WCtx, t: &mut Tape<'_>, o: &mut Obs) -> R
where
    P::BaseField: OracleRepr,
{
    let f = &c.f;
    let dst = gen_dst(t, o);
    let msg = gen_msg(t);
    o.show(|| format!("{}: hash_to_curve msg={} dst={}", c.name, hexb(&msg), hexb(&dst)));
    o.nt(true); // hash_to_field::<2> always needs >= 2 blocks
    o.class_if(msg.is_empty(), "msg-empty");
    o.evals(5);
    let us: Vec<P::BaseField> = no_panic("hash_to_field", || h2f_n::<P::BaseField, Sha256, 2>(&dst, &msg))?;
    for u in &us {
        if ark_swu_in_kernel::<P>(c, *u)? {
            o.class("wb:arkworks-swu-point-in-kernel");
            let q = no_panic("wb.map_to_curve", || WBMap::<P>::map_to_curve(*u))?.map_err(err("wb.map_to_curve"))?;
            ensure!(q.infinity, "hash.kernel", "hash_to_field element {} maps into the kernel of the isogeny, map_to_curve returns {} instead of the identity", f.hex(&u.to_o()), show_pt(f, &from_affine(&q)));
        }
    }
    let p1 = sw_hash_common::<P, WbHasher<P, Sha256>>(c, &msg, &dst)?;
    let got: Pt = from_affine(&p1);
    let a_e = P::BaseField::from_o(&c.ea);
    if c.suite != Suite::None {
        // RFC 9380 section 3: hash_to_curve = clear_cofactor(map_to_curve(u0) + map_to_curve(u1)), all by the reference
        let m = f.tw.degree();
        let want_u: Vec<Elem> = rfc::hash_to_field(&msg, &dst, &f.prime.p, m, 2).iter().map(|cs| f.tw.unflatten(cs)).collect();
        let got_u: Vec<Elem> = us.iter().map(|x| x.to_o()).collect();
        ensure!(got_u == want_u, "hash.u.rfc", "hash_to_field: got {:?} expected {:?}", got_u.iter().map(|e| f.hex(e)).collect::<Vec<_>>(), want_u.iter().map(|e| f.hex(e)).collect::<Vec<_>>());
        let q: Vec<Pt> = want_u.iter().map(|u| iso(f, c.iso.as_ref().unwrap(), &Some(swu(f, &c.pr, u).0))).collect();
        let sum = sw_add(&a_e, &to_sw::<P::BaseField>(&q[0]), &to_sw::<P::BaseField>(&q[1]));
        let want = from_sw(&sw_mul_jac(&a_e, &sum, c.h_eff.as_ref().unwrap()));
        ensure!(got == want, "hash.rfc", "msg={} dst={}: got {} expected {}", hexb(&msg), hexb(&dst), show_pt(f, &got), show_pt(f, &want));
    } else {
        // structure only: the hasher composes the configuration's own map and cofactor clearing
        let q0 = no_panic("wb.map_to_curve", || WBMap::<P>::map_to_curve(us[0]))?.map_err(err("wb.map_to_curve"))?;
        let q1 = no_panic("wb.map_to_curve", || WBMap::<P>::map_to_curve(us[1]))?.map_err(err("wb.map_to_curve"))?;
        let sum = sw_add(&a_e, &to_sw::<P::BaseField>(&from_affine(&q0)), &to_sw::<P::BaseField>(&from_affine(&q1)));
        let cleared = P::clear_cofactor(&vh_core::curve::sw_to_affine::<P>(&sum));
        ensure!(p1 == cleared, "hash.composition", "hash != clear_cofactor(map(u0) + map(u1))");
    }
    Ok(())
}

/// full hash_to_curve through the plain SWU map (toy curves with A*B != 0)
fn hash_swu_rel<P: SWUConfig>(c: &WCtx, t: &mut Tape<'_>, o: &mut Obs) -> R
where
    P::BaseField: OracleRepr,
{
    let dst = gen_dst(t, o);
    let msg = gen_msg(t);
    o.show(|| format!("{}: hash_to_curve (SWU) msg={} dst={}", c.name, hexb(&msg), hexb(&dst)));
    o.nt(true);
    sw_hash_common::<P, SwuHasher<P, Sha256>>(c, &msg, &dst).map(|_| ())
}

// -----------------------------------------------------------------------------------------------
// Elligator 2
// -----------------------------------------------------------------------------------------------

struct ECtx {
    name: String,
    f: Fa,
    pr: Ell2Params,
    a: Elem,
    d: Elem,
    r: BigUint,
    toy_p: Option<u64>,
    exc: Vec<(Elem, &'static str)>,
}

fn ell_ctx<P: Elligator2Config>(name: &str, toy_p: Option<u64>) -> ECtx
where
    P::BaseField: OracleRepr,
{
    let f = Fa::new(<P::BaseField as OracleRepr>::tower());
    let pr = Ell2Params { j: <P as MontCurveConfig>::COEFF_A.to_o(), k: <P as MontCurveConfig>::COEFF_B.to_o(), z: P::Z.to_o() };
    let exc = ell2_exceptional(&f, &pr);
    ECtx { name: name.to_string(), a: <P as TECurveConfig>::COEFF_A.to_o(), d: <P as TECurveConfig>::COEFF_D.to_o(), r: scalar_modulus::<P>(), f, pr, toy_p, exc }
}

fn te_on_curve_ref(f: &Fa, a: &Elem, d: &Elem, v: &Elem, w: &Elem) -> bool {
    let (v2, w2) = (f.sq(v), f.sq(w));
    f.add(&f.mul(a, &v2), &w2) == f.add(&f.one(), &f.mul(d, &f.mul(&v2, &w2)))
}

/// Elligator 2: image on the twisted Edwards curve; sign rule of RFC 6.7.1 (sgn0(y) = 1 iff g(x1) is a square)
fn ell_rel<P: Elligator2Config>(c: &ECtx, t: &mut Tape<'_>, o: &mut Obs) -> R
where
    P::BaseField: OracleRepr,
{
    let f = &c.f;
    let (u, cls) = gen_u(t, f, &c.exc, c.toy_p);
    o.class(cls);
    o.show(|| format!("{}: Elligator2 map_to_curve(u = {}) [{}]", c.name, f.hex(&u), cls));
    ensure!(!f.is_square(&c.pr.z), "ell2.params", "Z is a square");
    let ((_, ry), tr) = ell2_weierstrass_like(f, &c.pr, &u);
    o.nt(tr.den_zero || f.is_zero(&u) || f.is_zero(&ry));
    o.class_if(tr.den_zero, "ell2:1+Zu^2=0");
    o.class_if(f.is_zero(&ry), "ell2:y=0");
    o.class_if(tr.gx1_square, "ell2:gx1-square");
    let uf = P::BaseField::from_o(&u);
    let pt: TeAffine<P> = no_panic("ell2.map_to_curve", || Elligator2Map::<P>::map_to_curve(uf))?.map_err(err("ell2.map_to_curve"))?;
    let (v, w) = (pt.x.to_o(), pt.y.to_o());
    ensure!(te_on_curve_ref(f, &c.a, &c.d, &v, &w), "ell2.off-curve", "image ({}, {}) of u = {} is not on the curve", f.hex(&v), f.hex(&w), f.hex(&u));
    // back to Montgomery coordinates: s = (1 + w)/(1 - w), t = s / v, y = t / K
    if f.is_zero(&v) || w == f.one() {
        o.class("ell2:image-exceptional");
        return Ok(());
    }
    let s = f.div(&f.add(&f.one(), &w), &f.sub(&f.one(), &w));
    let y = f.div(&f.div(&s, &v), &c.pr.k);
    ensure!(
        f.is_zero(&y) || f.sgn0(&y) == tr.gx1_square,
        "ell2.sign",
        "u = {}: sgn0(y) = {} but is_square(g(x1)) = {}",
        f.hex(&u),
        f.sgn0(&y),
        tr.gx1_square
    );
    Ok(())
}

fn hash_ell_rel<P: Elligator2Config, H: FixedOutputReset + Default + Clone>(c: &ECtx, t: &mut Tape<'_>, o: &mut Obs) -> R
where
    P::BaseField: OracleRepr,
{
    let f = &c.f;
    let dst = gen_dst(t, o);
    let msg = gen_msg(t);
    o.show(|| format!("{}: hash_to_curve (Elligator2) msg={} dst={}", c.name, hexb(&msg), hexb(&dst)));
    o.nt(true);
    let p1: TeAffine<P> = no_panic("hash", || EllHasher::<P, H>::new(&dst).and_then(|h| h.hash(&msg)))?.map_err(err("hash"))?;
    let p2: TeAffine<P> = no_panic("hash", || EllHasher::<P, H>::new(&dst).and_then(|h| h.hash(&msg)))?.map_err(err("hash"))?;
    ensure!(p1 == p2, "hash.determinism", "two fresh hashers disagree");
    let (v, w) = (p1.x.to_o(), p1.y.to_o());
    ensure!(te_on_curve_ref(f, &c.a, &c.d, &v, &w), "hash.off-curve", "hash ({}, {}) is not on the curve", f.hex(&v), f.hex(&w));
    let (a, d) = (P::BaseField::from_o(&c.a), P::BaseField::from_o(&c.d));
    match te_mul(&a, &d, &Te(p1.x, p1.y), &c.r) {
        Some(rp) => ensure!(rp == te_identity(), "hash.subgroup", "r * hash != O for hash = ({}, {})", f.hex(&v), f.hex(&w)),
        None => o.class("oracle:incomplete-te-law"),
    }
    Ok(())
}

// -----------------------------------------------------------------------------------------------
// anchors: official test vectors, parameters
// -----------------------------------------------------------------------------------------------

fn vec_elem(f: &Fa, cs: &[&str]) -> Elem {
    let v: Vec<BigUint> = cs.iter().map(|s| big_hex(s)).collect();
    f.tw.unflatten(&v)
}

/// RFC 9380 appendix J.9.1 / J.10.1: the reference and arkworks both reproduce u, Q0, Q1, P
fn anchor_rel<P: WBConfig>(c: &WCtx, t: &mut Tape<'_>, o: &mut Obs) -> R
where
    P::BaseField: OracleRepr,
{
    let f = &c.f;
    let (table, dst) = if c.suite == Suite::G1 { (vectors::G1, vectors::G1_DST) } else { (vectors::G2, vectors::G2_DST) };
    let v = &table[t.idx(table.len())];
    let msg = vectors::long_msg(v.msg).into_bytes();
    let dst = dst.as_bytes();
    o.show(|| format!("{}: RFC 9380 vector msg={:?} ({} bytes)", c.name, v.msg, msg.len()));
    o.nt(true);
    o.evals(8);
    let e: Vec<Elem> = v.vals.iter().map(|cs| vec_elem(f, cs)).collect();
    let (u, q0, q1, p): (Vec<Elem>, Pt, Pt, Pt) =
        (vec![e[0].clone(), e[1].clone()], Some((e[2].clone(), e[3].clone())), Some((e[4].clone(), e[5].clone())), Some((e[6].clone(), e[7].clone())));
    // the reference reproduces the vector
    let m = f.tw.degree();
    let ru: Vec<Elem> = rfc::hash_to_field(&msg, dst, &f.prime.p, m, 2).iter().map(|cs| f.tw.unflatten(cs)).collect();
    ensure!(ru == u, "oracle.u", "the reference hash_to_field does not reproduce the RFC vector");
    let rq: Vec<Pt> = u.iter().map(|x| iso(f, c.iso.as_ref().unwrap(), &Some(swu(f, &c.pr, x).0))).collect();
    ensure!(rq[0] == q0 && rq[1] == q1, "oracle.q", "the reference map does not reproduce Q0/Q1: {} {}", show_pt(f, &rq[0]), show_pt(f, &rq[1]));
    let a_e = P::BaseField::from_o(&c.ea);
    let sum = sw_add(&a_e, &to_sw::<P::BaseField>(&q0), &to_sw::<P::BaseField>(&q1));
    let rp = from_sw(&sw_mul_jac(&a_e, &sum, c.h_eff.as_ref().unwrap()));
    ensure!(rp == p, "oracle.p", "the reference does not reproduce P: {}", show_pt(f, &rp));
    // arkworks reproduces the vector
    let us: Vec<P::BaseField> = no_panic("hash_to_field", || h2f_n::<P::BaseField, Sha256, 2>(dst, &msg))?;
    ensure!(us.iter().map(|x| x.to_o()).collect::<Vec<_>>() == u, "vector.u", "hash_to_field differs from the RFC vector");
    for (i, want) in [&q0, &q1].iter().enumerate() {
        let q = no_panic("wb.map_to_curve", || WBMap::<P>::map_to_curve(us[i]))?.map_err(err("wb.map_to_curve"))?;
        ensure!(from_affine(&q) == **want, "vector.q", "map_to_curve(u{}) = {} differs from the RFC vector", i, show_pt(f, &from_affine(&q)));
    }
    let h = no_panic("hash", || WbHasher::<P, Sha256>::new(dst).and_then(|h| h.hash(&msg)))?.map_err(err("hash"))?;
    ensure!(from_affine(&h) == p, "vector.p", "hash = {} differs from the RFC vector", show_pt(f, &from_affine(&h)));
    Ok(())
}

/// the configuration's constants equal the RFC's, `check_parameters` accepts them
fn params_rel<P: WBConfig>(c: &WCtx, _t: &mut Tape<'_>, o: &mut Obs) -> R
where
    P::BaseField: OracleRepr,
{
    let f = &c.f;
    o.show(|| format!("{}: parameters", c.name));
    o.nt(true);
    no_panic("check_parameters", || WBMap::<P>::check_parameters())?.map_err(err("check_parameters"))?;
    ensure!(c.params_ok.is_ok(), "params.swu", "E' parameters violate RFC 9380 appendix H.2: {:?}", c.params_ok);
    if c.suite != Suite::None {
        ensure_eq!(f.prime.p, big_hex(BLS381_P), "params.p");
        ensure_eq!(scalar_modulus::<P>(), big_hex(BLS381_R), "params.r");
        ensure_eq!(<P::IsogenousCurve as SWCurveConfig>::COEFF_A.to_o(), c.pr.a, "params.A'");
        ensure_eq!(<P::IsogenousCurve as SWCurveConfig>::COEFF_B.to_o(), c.pr.b, "params.B'");
        ensure_eq!(<P::IsogenousCurve as SWUConfig>::ZETA.to_o(), c.pr.z, "params.Z");
        ensure_eq!(P::COEFF_A.to_o(), c.ea, "params.A");
        ensure_eq!(P::COEFF_B.to_o(), c.eb, "params.B");
        ensure_eq!(rfc::len_per_elem(&f.prime.p, 128), 64, "params.L");
    }
    Ok(())
}

/// self-check of the reference against RFC 9380 appendix K.1 (includes the oversize DST)
fn xmd_oracle_rel(t: &mut Tape<'_>, o: &mut Obs) -> R {
    let (dst, msg, len, want) = vectors::XMD[t.idx(vectors::XMD.len())];
    let msg = vectors::long_msg(msg).into_bytes();
    o.show(|| format!("expand_message_xmd reference vs RFC K.1: msg {} bytes, dst {} bytes, len {}", msg.len(), dst.len(), len));
    o.nt(true);
    let got: String = rfc::expand_message_xmd(&msg, dst.as_bytes(), len).iter().map(|b| format!("{:02x}", b)).collect();
    ensure!(got == want, "oracle.xmd", "reference expand_message_xmd differs from RFC 9380 K.1: {}", got);
    Ok(())
}

/// self-check: the fast square test / square root of the reference agree with the Euler criterion and
/// Tonelli–Shanks computed by schoolbook exponentiation in the whole field
fn algebra_oracle_rel(f: &Fa, name: &str, t: &mut Tape<'_>, o: &mut Obs) -> R {
    let (x, cls) = edge_elem(t, &f.tw, &f.prime);
    let a = if t.bool() { f.sq(&x) } else { x.clone() };
    o.class(cls);
    o.show(|| format!("{}: is_square/sqrt of {}", name, f.hex(&a)));
    o.nt(!f.is_zero(&a));
    let sq = f.is_square(&a);
    ensure!(sq == f.slow_is_square(&a), "oracle.is_square", "norm-based square test differs from the Euler criterion for {}", f.hex(&a));
    match (f.sqrt(&a), f.slow_sqrt(&a)) {
        (Some(r), Some(s)) => ensure!(sq && f.sq(&r) == a && (r == s || r == f.neg(&s)), "oracle.sqrt", "square roots disagree"),
        (None, None) => ensure!(!sq, "oracle.sqrt", "square without a root"),
        _ => return vh_core::fail("oracle.sqrt", "fast and slow square roots disagree on existence"),
    }
    Ok(())
}

/// self-check: the inversion-free double-and-add equals the textbook affine oracle of `vh_core::curve`
fn jacobian_oracle_rel<P: WBConfig>(c: &WCtx, t: &mut Tape<'_>, o: &mut Obs) -> R
where
    P::BaseField: OracleRepr,
{
    let f = &c.f;
    let (_, exc) = c.exceptional();
    let (u, _) = gen_u(t, f, exc, c.toy_p);
    let q = iso(f, c.iso.as_ref().unwrap(), &Some(swu(f, &c.pr, &u).0));
    let k = match t.weighted(&[4, 1, 1, 1]) {
        0 => big(&vh_core::gen::edge_int(t, 3)),
        1 => c.r.clone(),
        2 => &c.r - 1u32,
        _ => BigUint::from(t.below(16)),
    };
    o.show(|| format!("{}: [{:x}] * {}", c.name, k, show_pt(f, &q)));
    o.nt(k.bits() > 1 && q.is_some());
    let a_e = P::BaseField::from_o(&c.ea);
    let p = to_sw::<P::BaseField>(&q);
    ensure!(sw_mul_jac(&a_e, &p, &k) == sw_mul(&a_e, &p, &k), "oracle.jacobian", "Jacobian and affine double-and-add disagree");
    Ok(())
}

// -----------------------------------------------------------------------------------------------
// relation table
// -----------------------------------------------------------------------------------------------

const TAPE_MSG: usize = 104; // 300 + 400 bytes and a few selectors

fn relations(tier: Tier) -> Vec<Rel> {
    let mut out: Vec<Rel> = Vec::new();
    let q = |n: u32| tier.pick(n, n * 20);

    out.push(Rel::new("oracle/expand_message_xmd.K1", 0, 1, xmd_oracle_rel).exhaustive(|| Box::new((0..vectors::XMD.len() as u64).map(|i| vec![i]))));

    macro_rules! alg {
        ($f:ty, $name:expr) => {{
            let fa = Arc::new(Fa::new(<$f as OracleRepr>::tower()));
            out.push(Rel::new(format!("oracle/field-algebra.{}", $name), tier.pick(60, 400), 16, move |t, o| algebra_oracle_rel(&fa, $name, t, o)));
        }};
    }
    alg!(ark_bls12_381::Fq, "bls12_381.Fq");
    alg!(ark_bls12_381::Fq2, "bls12_381.Fq2");
    alg!(ark_bls12_377::Fq, "bls12_377.Fq");
    alg!(ark_bls12_377::Fq2, "bls12_377.Fq2");
    alg!(vh_core::toy::Tf113, "toy.F113");

    // ---- hash_to_field -------------------------------------------------------------------------
    macro_rules! h2f {
        ($f:ty, $name:expr, $cases:expr) => {{
            let fa = Arc::new(Fa::new(<$f as OracleRepr>::tower()));
            assert_eq!(rfc::len_per_elem(&fa.prime.p, 128), 64, "RFC equality is claimed only when L = 64");
            let dump = Dump::new($name);
            out.push(Rel::new(format!("hash_to_field/{}", $name), q($cases), TAPE_MSG, move |t, o| h2f_rel::<$f>(&fa, $name, &dump, t, o)));
        }};
    }
    h2f!(ark_test_curves::bls12_381::Fq, "test.bls12_381.Fq", 1500);
    h2f!(ark_test_curves::bls12_381::Fq2, "test.bls12_381.Fq2", 1500);
    h2f!(ark_bls12_381::Fq, "bls12_381.Fq", 1500);
    h2f!(ark_bls12_381::Fq2, "bls12_381.Fq2", 1500);
    h2f!(ark_bls12_377::Fq, "bls12_377.Fq", 800);
    h2f!(ark_bls12_377::Fq2, "bls12_377.Fq2", 800);
    {
        let fa = Arc::new(Fa::new(<ark_bls12_381::Fq as OracleRepr>::tower()));
        out.push(Rel::new("hash_to_field.sec-param/bls12_381.Fq", q(600), TAPE_MSG, move |t, o| h2f_secparam_rel::<ark_bls12_381::Fq>(&fa, "bls12_381.Fq", t, o)));
        let fa = Arc::new(Fa::new(<ark_bls12_381::Fq2 as OracleRepr>::tower()));
        out.push(Rel::new("hash_to_field.sec-param/bls12_381.Fq2", q(600), TAPE_MSG, move |t, o| h2f_secparam_rel::<ark_bls12_381::Fq2>(&fa, "bls12_381.Fq2", t, o)));
    }
    out.push(Rel::new("hash_to_field.det/bandersnatch.Fq.sha512", q(400), TAPE_MSG, |t, o| {
        h2f_det_rel::<ark_ed_on_bls12_381_bandersnatch::Fq, Sha512>("bandersnatch.Fq/SHA-512", t, o)
    }));
    out.push(Rel::new("hash_to_field.det/toy.F101.sha256", q(400), TAPE_MSG, |t, o| h2f_det_rel::<vh_core::toy::Tf101, Sha256>("toy.F101/SHA-256", t, o)));
    {
        let fa = Arc::new(Fa::new(<ark_bls12_381::Fq as OracleRepr>::tower()));
        out.push(Rel::new("hash_to_field.too-long/bls12_381.Fq", q(60), TAPE_MSG, move |t, o| h2f_too_long_rel::<ark_bls12_381::Fq>(&fa, "bls12_381.Fq", t, o)).shrink_iters(20));
        let fa = Arc::new(Fa::new(<ark_bls12_381::Fq2 as OracleRepr>::tower()));
        out.push(Rel::new("hash_to_field.too-long/bls12_381.Fq2", q(60), TAPE_MSG, move |t, o| h2f_too_long_rel::<ark_bls12_381::Fq2>(&fa, "bls12_381.Fq2", t, o)).shrink_iters(20));
    }
    // moduli whose bit length is a multiple of 8 (the byte-wise reduction of the expanded bytes then converts a
    // full-width leading chunk) and that are not close to 2^bits, so that many chunks are >= p: no panic, canonical,
    // deterministic (RFC equality is not claimed for L != 64, observation O2)
    macro_rules! h2f_det_zoo {
        ($($f:ident),*) => {$(
            out.push(Rel::new(concat!("hash_to_field.det/zoo.", stringify!($f), ".sha256"), q(300), TAPE_MSG, |t, o| {
                h2f_det_rel::<vh_core::zoo::$f, Sha256>(concat!("zoo.", stringify!($f), "/SHA-256"), t, o)
            }));
        )*};
    }
    h2f_det_zoo!(W1, W2, W3, W4, Secp256k1, NistP256, C448, N6, T251);
    // long outputs (33..=254 SHA-256 blocks) for the fields with L = 64
    macro_rules! h2f_long {
        ($f:ty, $name:expr, $cases:expr) => {{
            let fa = Arc::new(Fa::new(<$f as OracleRepr>::tower()));
            assert_eq!(rfc::len_per_elem(&fa.prime.p, 128), 64, "RFC equality is claimed only when L = 64");
            out.push(Rel::new(format!("hash_to_field.long/{}", $name), q($cases), TAPE_MSG, move |t, o| h2f_long_rel::<$f>(&fa, $name, t, o)));
        }};
    }
    h2f_long!(ark_bls12_381::Fq, "bls12_381.Fq", 300);
    h2f_long!(ark_bls12_381::Fq2, "bls12_381.Fq2", 300);
    h2f_long!(ark_test_curves::bls12_381::Fq2, "test.bls12_381.Fq2", 150);
    h2f_long!(ark_bls12_377::Fq, "bls12_377.Fq", 150);
    // curve_maps::parity called directly
    macro_rules! par {
        ($f:ty, $name:expr) => {{
            let fa = Arc::new(Fa::new(<$f as OracleRepr>::tower()));
            out.push(Rel::new(format!("parity/{}", $name), q(600), 48, move |t, o| parity_rel::<$f>(&fa, $name, t, o)));
        }};
    }
    par!(ark_bls12_381::Fq, "bls12_381.Fq");
    par!(ark_bls12_381::Fq2, "bls12_381.Fq2");
    par!(ark_bls12_377::Fq2, "bls12_377.Fq2");
    par!(ark_ed_on_bls12_381_bandersnatch::Fq, "bandersnatch.Fq");
    // the XOF-reader entry point of field_hashers (one element from a byte stream)
    macro_rules! h2f_xof {
        ($f:ty, $name:expr, $cases:expr) => {{
            let fa = Arc::new(Fa::new(<$f as OracleRepr>::tower()));
            out.push(Rel::new(format!("hash_to_field.xof/{}", $name), q($cases), 80, move |t, o| h2f_xof_rel::<$f>(&fa, $name, t, o)));
        }};
    }
    h2f_xof!(ark_bls12_381::Fq, "bls12_381.Fq", 600);
    h2f_xof!(ark_bls12_381::Fq2, "bls12_381.Fq2", 600);
    h2f_xof!(ark_bls12_377::Fq2, "bls12_377.Fq2", 400);
    h2f_xof!(ark_ed_on_bls12_381_bandersnatch::Fq, "bandersnatch.Fq", 400);
    h2f_xof!(vh_core::toy::Tf101, "toy.F101", 400);

    // ---- WB configurations ---------------------------------------------------------------------
    macro_rules! wb {
        ($p:ty, $name:expr, $suite:expr, $toy:expr, $maps:expr, $hashes:expr, $shards:expr) => {{
            let c = Arc::new(wb_ctx::<$p>($name, $suite, $toy));
            let toy: Option<u64> = $toy;
            let cc = c.clone();
            out.push(Rel::new(format!("params/{}", $name), 0, 1, move |t, o| params_rel::<$p>(&cc, t, o)).exhaustive(|| Box::new(std::iter::once(vec![0u64]))));
            if $suite != Suite::None {
                let cc = c.clone();
                out.push(Rel::new(format!("rfc-vectors/{}", $name), 0, 1, move |t, o| anchor_rel::<$p>(&cc, t, o)).exhaustive(|| Box::new((0..5u64).map(|i| vec![i]))));
            }
            let mk = |r: Rel| -> Rel {
                match toy {
                    Some(p) => r.exhaustive(move || Box::new((0..p).map(|u| vec![u]))),
                    None => r,
                }
            };
            let n_maps = if toy.is_some() { 0 } else { q($maps) };
            if toy.is_none() {
                let cc = c.clone();
                out.push(Rel::new(format!("oracle/jacobian.{}", $name), tier.pick(60, 400), 60, move |t, o| jacobian_oracle_rel::<$p>(&cc, t, o)));
            }
            let cc = c.clone();
            out.push(mk(Rel::new(format!("swu/{}.iso", $name), n_maps, 40, move |t, o| swu_rel::<<$p as WBConfig>::IsogenousCurve>(&cc, t, o))));
            let cc = c.clone();
            out.push(mk(Rel::new(format!("wb/{}", $name), n_maps, 40, move |t, o| wb_rel::<$p>(&cc, t, o))));
            let cc = c.clone();
            let r = Rel::new(format!("isogeny/{}", $name), if toy.is_some() { 0 } else { q($maps / 2) }, 80, move |t, o| iso_rel::<$p>(&cc, t, o));
            out.push(match toy {
                // exact mode: `weighted(&[6,1,1,1])` reads word % 9: 0 => P+Q, 6 => P+P, 7 => P-P, 8 => P+O
                Some(p) => r.exhaustive(move || {
                    Box::new((0..p).flat_map(move |a| (0..p).map(move |b| vec![a, 0, b]).chain((6..9u64).map(move |k| vec![a, k, 0]))))
                }),
                None => r,
            });
            for s in 0..$shards {
                let cc = c.clone();
                out.push(
                    Rel::new(format!("hash/{}#{}", $name, s), q($hashes) / $shards, TAPE_MSG, move |t, o| hash_wb_rel::<$p>(&cc, t, o)).shrink_iters(300),
                );
            }
        }};
    }
    wb!(ark_test_curves::bls12_381::g1::Config, "test.bls12_381.G1", Suite::G1, None, 800, 1500, 2);
    wb!(ark_test_curves::bls12_381::g2::Config, "test.bls12_381.G2", Suite::G2, None, 800, 1500, 4);
    wb!(ark_bls12_381::g1::Config, "bls12_381.G1", Suite::G1, None, 800, 1500, 2);
    wb!(ark_bls12_381::g2::Config, "bls12_381.G2", Suite::G2, None, 800, 1500, 4);
    wb!(ark_bls12_377::g1::Config, "bls12_377.G1", Suite::None, None, 600, 400, 1);
    wb!(ark_bls12_377::g2::Config, "bls12_377.G2", Suite::None, None, 600, 400, 1);
    wb!(toys::Wb127, "toy.Wb127", Suite::None, Some(127), 0, 300, 1);
    wb!(toys::Wb113, "toy.Wb113", Suite::None, Some(113), 0, 300, 1);

    // ---- plain SWU toy curves --------------------------------------------------------------------
    macro_rules! swu_toy {
        ($p:ty, $name:expr, $prime:expr, $big:expr) => {{
            {
                let c = Arc::new(swu_ctx::<$p>($name, Some($prime)));
                let cc = c.clone();
                out.push(Rel::new(format!("swu/{}", $name), 0, 1, move |t, o| swu_rel::<$p>(&cc, t, o)).exhaustive(|| Box::new((0..$prime as u64).map(|u| vec![u]))));
                let cc = c.clone();
                out.push(Rel::new(format!("hash/{}", $name), q(300), TAPE_MSG, move |t, o| hash_swu_rel::<$p>(&cc, t, o)));
            }
        }};
    }
    swu_toy!(toys::SwuAxP1, "toy.SwuAxP1", 101u64, false);
    swu_toy!(toys::SwuAxH4, "toy.SwuAxH4", 113u64, false);
    swu_toy!(toys::SwuAxH2, "toy.SwuAxH2", 89u64, false);
    swu_toy!(toys::SwuAm3, "toy.SwuAm3", 107u64, false);
    swu_toy!(toys::SwuBigAx, "toy.SwuBigAx", 1021u64, true);

    // ---- plain SWU hashing onto the shipped isogenous helper curves (their own COFACTOR and generator constants are
    // read only here: the Wahby-Boneh suites clear the cofactor on the target curve)
    macro_rules! swu_iso {
        ($p:ty, $name:expr, $n:expr) => {{
            let c = Arc::new(swu_ctx::<<$p as WBConfig>::IsogenousCurve>($name, None));
            out.push(Rel::new(format!("hash.swu-iso/{}", $name), q($n), TAPE_MSG, move |t, o| hash_swu_rel::<<$p as WBConfig>::IsogenousCurve>(&c, t, o)).shrink_iters(100));
        }};
    }
    swu_iso!(ark_test_curves::bls12_381::g1::Config, "test.bls12_381.G1.iso", 60);
    swu_iso!(ark_test_curves::bls12_381::g2::Config, "test.bls12_381.G2.iso", 40);
    swu_iso!(ark_bls12_381::g1::Config, "bls12_381.G1.iso", 60);
    swu_iso!(ark_bls12_381::g2::Config, "bls12_381.G2.iso", 40);
    swu_iso!(ark_bls12_377::g1::Config, "bls12_377.G1.iso", 60);
    swu_iso!(ark_bls12_377::g2::Config, "bls12_377.G2.iso", 40);

    // ---- Elligator 2 -----------------------------------------------------------------------------
    macro_rules! ell {
        ($p:ty, $h:ty, $name:expr, $toy:expr, $maps:expr, $hashes:expr) => {{
            let c = Arc::new(ell_ctx::<$p>($name, $toy));
            let toy: Option<u64> = $toy;
            let cc = c.clone();
            let r = Rel::new(format!("elligator2/{}", $name), if toy.is_some() { 0 } else { q($maps) }, 40, move |t, o| ell_rel::<$p>(&cc, t, o));
            out.push(match toy {
                Some(p) => r.exhaustive(move || Box::new((0..p).map(|u| vec![u]))),
                None => r,
            });
            if $hashes > 0 {
                let cc = c.clone();
                out.push(Rel::new(format!("hash/{}", $name), q($hashes), TAPE_MSG, move |t, o| hash_ell_rel::<$p, $h>(&cc, t, o)));
            }
        }};
    }
    ell!(ark_ed_on_bls12_381_bandersnatch::BandersnatchConfig, Sha512, "bandersnatch", None, 800, 300);
    ell!(toys::EllC1, Sha256, "toy.EllC1", Some(101), 0, 200);
    ell!(toys::EllCm1, Sha256, "toy.EllCm1", Some(109), 0, 200);
    ell!(toys::EllC5, Sha256, "toy.EllC5", Some(89), 0, 200);
    ell!(toys::EllN, Sha256, "toy.EllN", Some(103), 0, 0); // incomplete addition law (C03): maps only
    ell!(toys::EllN2, Sha256, "toy.EllN2", Some(107), 0, 0);
    ell!(toys::EllBig, Sha256, "toy.EllBig", Some(1013), 0, 200);
    ell!(toys::EllRepo101, Sha256, "toy.EllRepo101", Some(101), 0, 200);
    out
}

fn main() {
    vh_core::engine::main(PropSpec {
        id: "C13",
        rule: "Cases are decoded from a proptest tape. (msg, DST): messages of 0..=300 bytes (lengths around the SHA-256 block/padding boundaries favoured; random, all-zero or all-0xff content), DSTs of 0..=400 bytes (0, 1..16, 17..64, 65..252, 253..258, 256..400, 400), hash_to_field::<N> for N in {1,2,3,4,8}, and (relations hash_to_field.long/*) N in {5,7,16,17,32,33,63,64,100,127} as far as the expander accepts them (ell = ceil(N*m*64/32) <= 255), i.e. outputs of 10..=254 SHA-256 blocks. The XOF-reader entry point field_hashers::hash_to_field::<F, H, SEC_PARAM>(reader) (relations hash_to_field.xof/*) is fed a byte stream chosen by the tape (each L-byte window random, zero, all ones, c*p+d with |d| <= 2, or the largest multiple of p below 2^(8L)) for SEC_PARAM in {0,127,128,256} over BLS12-381 Fq/Fq2, BLS12-377 Fq2, Bandersnatch Fq and F_101; oracle: coordinate j = OS2IP(window j) mod p with L = ceil((ceil(log2 p)+k)/8), exactly m*L bytes consumed. curve_maps::parity is also called directly (relations parity/*) on elements of Fq and Fq2 whose leading coordinates are forced to zero, against sgn0 of RFC 9380 section 4.1 and parity(-x) != parity(x). Map inputs u: 0, 1, -1, edge values, elements of Fp2 with c0 = 0, uniform, and the exceptional inputs computed by the harness (roots of Z^2u^4+Zu^2; every u whose SWU image is a 2-torsion point of E' or lies in the kernel of the configured isogeny, found by factoring g and the isogeny denominators over the field; roots of 1+Zu^2 for Elligator 2); toy configurations (SWU over F_89..F_1021, a 13-isogeny over F_127, a 2-isogeny with rational kernel over F_113, Elligator 2 over F_89..F_1013) are enumerated over every u. RFC 9380 equality (hash_to_field, map_to_curve, hash_to_curve against an independent sha2+BigUint reference and the official appendix J/K vectors) is claimed for the suites BLS12381G1_XMD:SHA-256_SSWU_RO_ and BLS12381G2_XMD:SHA-256_SSWU_RO_ in both test-curves and curves/bls12_381, and for hash_to_field over the BLS12-377 fields (L = 64 = SHA-256 block size); for BLS12-377 G1/G2 (WB), Bandersnatch (Elligator 2, SHA-512) and the toy configurations only determinism, image on the curve (harness equation), the sign convention of the map, kernel -> identity, hash = clear_cofactor(map(u0)+map(u1)) and r*hash = O are checked, because DefaultFieldHasher uses L as the XMD block size (observation O2). A case is non-trivial when |DST| > 255, or the expansion needs >= 2 SHA-256 blocks, or u is an exceptional input (tv1 = 0, image of order 2, image in the isogeny kernel, 1+Zu^2 = 0, u = 0), or u in Fp2 has c0 = 0; for the isogeny-additivity relation: P != +-Q or a kernel point is involved; distinct = distinct decoded choice sequences.",
        assumptions: &[
            "the sha2 crate computes SHA-256/SHA-512 correctly (the reference is additionally anchored to the RFC 9380 appendix K.1 and J.9.1/J.10.1 vectors; the thorough tier re-computes samples with Python hashlib)",
            "num-bigint arithmetic is correct; the harness' fast square test/square root (norm method) and Jacobian double-and-add are cross-checked against Euler/Tonelli-Shanks and the textbook affine law in the oracle/* relations",
            "group additions and scalar multiplications of the reference use arkworks field arithmetic (subject of C01/C02) under the harness' own curve formulas",
            "RFC equality is not claimed where L = ceil((log2 p + 128)/8) differs from the hash block size (O2); twisted Edwards toy curves with an incomplete addition law are excluded from the hash relations (their group law is C03's subject)",
            "E', Z, h_eff of the two RFC suites are typed from RFC 9380 section 8.8; the isogeny coefficients are taken from /repo and validated as a homomorphism E' -> E plus the official vectors",
        ],
        relations,
    })
}
