//! C13 — not implemented yet.
fn main() {
    eprintln!("C13: check not implemented");
    std::process::exit(2);
}
