//! Toy configurations for the maps (parameters of `vh_core::toy`, re-declared locally because the map
//! traits must be implemented on a local type). Z follows RFC 9380 appendix H (find_z_sswu / find_z_ell2).
//! Generated once with a Python script; constants are plain integers.
#![allow(non_camel_case_types, clippy::all)]
use ark_ec::hashing::curve_maps::elligator2::Elligator2Config;
use ark_ec::hashing::curve_maps::swu::SWUConfig;
use ark_ec::hashing::curve_maps::wb::{IsogenyMap, WBConfig};
use ark_ec::models::short_weierstrass::{self as sw, SWCurveConfig};
use ark_ec::models::twisted_edwards::{self as te, MontCurveConfig, TECurveConfig};
use ark_ec::models::CurveConfig;
use ark_ff::MontFp;
use vh_core::toy::*;

#[derive(ark_ff::MontConfig)]
#[modulus = "11"]
#[generator = "2"]
pub struct Tf11Cfg;
pub type Tf11 = ark_ff::Fp<ark_ff::MontBackend<Tf11Cfg, 1>, 1>;

/// y^2 = x^3 + x + 32 over F_101, prime order 101, Z = -3
#[derive(Clone, Default, PartialEq, Eq)]
pub struct SwuAxP1;
impl CurveConfig for SwuAxP1 {
    type BaseField = Tf101;
    type ScalarField = Tf101;
    const COFACTOR: &'static [u64] = &[1];
    const COFACTOR_INV: Tf101 = MontFp!("1");
}
impl SWCurveConfig for SwuAxP1 {
    const COEFF_A: Tf101 = MontFp!("1");
    const COEFF_B: Tf101 = MontFp!("32");
    const GENERATOR: sw::Affine<Self> = sw::Affine::new_unchecked(MontFp!("4"), MontFp!("10"));
}
impl SWUConfig for SwuAxP1 {
    const ZETA: Tf101 = MontFp!("-3");
}

/// y^2 = x^3 + x + 4 over F_113, order 124 = 4*31, full 2-torsion, Z = -5
#[derive(Clone, Default, PartialEq, Eq)]
pub struct SwuAxH4;
impl CurveConfig for SwuAxH4 {
    type BaseField = Tf113;
    type ScalarField = Tf31;
    const COFACTOR: &'static [u64] = &[4];
    const COFACTOR_INV: Tf31 = MontFp!("8");
}
impl SWCurveConfig for SwuAxH4 {
    const COEFF_A: Tf113 = MontFp!("1");
    const COEFF_B: Tf113 = MontFp!("4");
    const GENERATOR: sw::Affine<Self> = sw::Affine::new_unchecked(MontFp!("55"), MontFp!("18"));
}
impl SWUConfig for SwuAxH4 {
    const ZETA: Tf113 = MontFp!("-5");
}

/// y^2 = x^3 + x + 12 over F_89, order 82 = 2*41, one 2-torsion point, Z = 3
#[derive(Clone, Default, PartialEq, Eq)]
pub struct SwuAxH2;
impl CurveConfig for SwuAxH2 {
    type BaseField = Tf89;
    type ScalarField = Tf41;
    const COFACTOR: &'static [u64] = &[2];
    const COFACTOR_INV: Tf41 = MontFp!("21");
}
impl SWCurveConfig for SwuAxH2 {
    const COEFF_A: Tf89 = MontFp!("1");
    const COEFF_B: Tf89 = MontFp!("12");
    const GENERATOR: sw::Affine<Self> = sw::Affine::new_unchecked(MontFp!("5"), MontFp!("63"));
}
impl SWUConfig for SwuAxH2 {
    const ZETA: Tf89 = MontFp!("3");
}

/// y^2 = x^3 - 3x + 5 over F_107, prime order 101, Z = 15
#[derive(Clone, Default, PartialEq, Eq)]
pub struct SwuAm3;
impl CurveConfig for SwuAm3 {
    type BaseField = Tf107;
    type ScalarField = Tf101;
    const COFACTOR: &'static [u64] = &[1];
    const COFACTOR_INV: Tf101 = MontFp!("1");
}
impl SWCurveConfig for SwuAm3 {
    const COEFF_A: Tf107 = MontFp!("104");
    const COEFF_B: Tf107 = MontFp!("5");
    const GENERATOR: sw::Affine<Self> = sw::Affine::new_unchecked(MontFp!("1"), MontFp!("18"));
}
impl SWUConfig for SwuAm3 {
    const ZETA: Tf107 = MontFp!("15");
}

/// y^2 = x^3 + x + 1 over F_1021, order 1042 = 2*521, Z = 7
#[derive(Clone, Default, PartialEq, Eq)]
pub struct SwuBigAx;
impl CurveConfig for SwuBigAx {
    type BaseField = Tf1021;
    type ScalarField = Tf521;
    const COFACTOR: &'static [u64] = &[2];
    const COFACTOR_INV: Tf521 = MontFp!("261");
}
impl SWCurveConfig for SwuBigAx {
    const COEFF_A: Tf1021 = MontFp!("1");
    const COEFF_B: Tf1021 = MontFp!("1");
    const GENERATOR: sw::Affine<Self> = sw::Affine::new_unchecked(MontFp!("766"), MontFp!("637"));
}
impl SWUConfig for SwuBigAx {
    const ZETA: Tf1021 = MontFp!("7");
}

/// E': y^2 = x^3 + 109x + 124 over F_127 (order 127), Z = 3
#[derive(Clone, Default, PartialEq, Eq)]
pub struct Wb127Iso;
impl CurveConfig for Wb127Iso {
    type BaseField = Tf127;
    type ScalarField = Tf127;
    const COFACTOR: &'static [u64] = &[1];
    const COFACTOR_INV: Tf127 = MontFp!("1");
}
impl SWCurveConfig for Wb127Iso {
    const COEFF_A: Tf127 = MontFp!("109");
    const COEFF_B: Tf127 = MontFp!("124");
    const GENERATOR: sw::Affine<Self> = sw::Affine::new_unchecked(MontFp!("84"), MontFp!("2"));
}
impl SWUConfig for Wb127Iso {
    const ZETA: Tf127 = MontFp!("3");
}

/// E: y^2 = x^3 + 3 over F_127 (order 127); isogeny constants of the fixture in ec/src/hashing/curve_maps/wb.rs
#[derive(Clone, Default, PartialEq, Eq)]
pub struct Wb127;
impl CurveConfig for Wb127 {
    type BaseField = Tf127;
    type ScalarField = Tf127;
    const COFACTOR: &'static [u64] = &[1];
    const COFACTOR_INV: Tf127 = MontFp!("1");
}
impl SWCurveConfig for Wb127 {
    const COEFF_A: Tf127 = MontFp!("0");
    const COEFF_B: Tf127 = MontFp!("3");
    const GENERATOR: sw::Affine<Self> = sw::Affine::new_unchecked(MontFp!("1"), MontFp!("2"));
}
impl WBConfig for Wb127 {
    type IsogenousCurve = Wb127Iso;
    const ISOGENY_MAP: IsogenyMap<'static, Wb127Iso, Wb127> = IsogenyMap {
        x_map_numerator: &[MontFp!("4"), MontFp!("63"), MontFp!("23"), MontFp!("39"), MontFp!("-14"), MontFp!("23"), MontFp!("-32"), MontFp!("32"), MontFp!("-13"), MontFp!("40"), MontFp!("34"), MontFp!("10"), MontFp!("-21"), MontFp!("-57")],
        x_map_denominator: &[MontFp!("2"), MontFp!("31"), MontFp!("-10"), MontFp!("-20"), MontFp!("63"), MontFp!("-44"), MontFp!("34"), MontFp!("30"), MontFp!("-30"), MontFp!("-33"), MontFp!("11"), MontFp!("-13"), MontFp!("1")],
        y_map_numerator: &[MontFp!("-34"), MontFp!("-57"), MontFp!("30"), MontFp!("-18"), MontFp!("-60"), MontFp!("-43"), MontFp!("-63"), MontFp!("-18"), MontFp!("-49"), MontFp!("36"), MontFp!("12"), MontFp!("62"), MontFp!("5"), MontFp!("6"), MontFp!("-7"), MontFp!("48"), MontFp!("41"), MontFp!("59"), MontFp!("10")],
        y_map_denominator: &[MontFp!("32"), MontFp!("-18"), MontFp!("-24"), MontFp!("23"), MontFp!("18"), MontFp!("-55"), MontFp!("-16"), MontFp!("-61"), MontFp!("-46"), MontFp!("-13"), MontFp!("-42"), MontFp!("11"), MontFp!("-30"), MontFp!("38"), MontFp!("3"), MontFp!("52"), MontFp!("-63"), MontFp!("44"), MontFp!("1")],
    };
}

/// E': y^2 = x^3 + x + 4 over F_113 (order 124, full 2-torsion), Z = -5
#[derive(Clone, Default, PartialEq, Eq)]
pub struct Wb113Iso;
impl CurveConfig for Wb113Iso {
    type BaseField = Tf113;
    type ScalarField = Tf31;
    const COFACTOR: &'static [u64] = &[4];
    const COFACTOR_INV: Tf31 = MontFp!("8");
}
impl SWCurveConfig for Wb113Iso {
    const COEFF_A: Tf113 = MontFp!("1");
    const COEFF_B: Tf113 = MontFp!("4");
    const GENERATOR: sw::Affine<Self> = sw::Affine::new_unchecked(MontFp!("55"), MontFp!("18"));
}
impl SWUConfig for Wb113Iso {
    const ZETA: Tf113 = MontFp!("-5");
}

/// E: y^2 = x^3 + 21x + 59 over F_113 (order 124 = 4*31): codomain of the Velu 2-isogeny with kernel <(6,0)>: X = x + 109/(x-6), Y = y (1 - 109/(x-6)^2)
#[derive(Clone, Default, PartialEq, Eq)]
pub struct Wb113;
impl CurveConfig for Wb113 {
    type BaseField = Tf113;
    type ScalarField = Tf31;
    const COFACTOR: &'static [u64] = &[4];
    const COFACTOR_INV: Tf31 = MontFp!("8");
}
impl SWCurveConfig for Wb113 {
    const COEFF_A: Tf113 = MontFp!("21");
    const COEFF_B: Tf113 = MontFp!("59");
    const GENERATOR: sw::Affine<Self> = sw::Affine::new_unchecked(MontFp!("73"), MontFp!("9"));
}
impl WBConfig for Wb113 {
    type IsogenousCurve = Wb113Iso;
    const ISOGENY_MAP: IsogenyMap<'static, Wb113Iso, Wb113> = IsogenyMap {
        x_map_numerator: &[MontFp!("109"), MontFp!("107"), MontFp!("1")],
        x_map_denominator: &[MontFp!("107"), MontFp!("1")],
        y_map_numerator: &[MontFp!("40"), MontFp!("101"), MontFp!("1")],
        y_map_denominator: &[MontFp!("36"), MontFp!("101"), MontFp!("1")],
    };
}

/// 1x^2 + y^2 = 1 + 2x^2y^2 over F_101; Montgomery 97t^2 = s^3 + 95s^2 + s; cofactor 8; Z = 2
#[derive(Clone, Default, PartialEq, Eq)]
pub struct EllC1;
impl CurveConfig for EllC1 {
    type BaseField = Tf101;
    type ScalarField = Tf13;
    const COFACTOR: &'static [u64] = &[8];
    const COFACTOR_INV: Tf13 = MontFp!("5");
}
impl TECurveConfig for EllC1 {
    const COEFF_A: Tf101 = MontFp!("1");
    const COEFF_D: Tf101 = MontFp!("2");
    const GENERATOR: te::Affine<Self> = te::Affine::new_unchecked(MontFp!("96"), MontFp!("40"));
    type MontCurveConfig = Self;
}
impl MontCurveConfig for EllC1 {
    const COEFF_A: Tf101 = MontFp!("95");
    const COEFF_B: Tf101 = MontFp!("97");
    type TECurveConfig = Self;
}
impl Elligator2Config for EllC1 {
    const Z: Tf101 = MontFp!("2");
    const ONE_OVER_COEFF_B_SQUARE: Tf101 = MontFp!("19");
    const COEFF_A_OVER_COEFF_B: Tf101 = MontFp!("52");
}

/// 108x^2 + y^2 = 1 + 10x^2y^2 over F_109; Montgomery 69t^2 = s^3 + 38s^2 + s; cofactor 4; Z = 2
#[derive(Clone, Default, PartialEq, Eq)]
pub struct EllCm1;
impl CurveConfig for EllCm1 {
    type BaseField = Tf109;
    type ScalarField = Tf29;
    const COFACTOR: &'static [u64] = &[4];
    const COFACTOR_INV: Tf29 = MontFp!("22");
}
impl TECurveConfig for EllCm1 {
    const COEFF_A: Tf109 = MontFp!("108");
    const COEFF_D: Tf109 = MontFp!("10");
    const GENERATOR: te::Affine<Self> = te::Affine::new_unchecked(MontFp!("97"), MontFp!("16"));
    type MontCurveConfig = Self;
}
impl MontCurveConfig for EllCm1 {
    const COEFF_A: Tf109 = MontFp!("38");
    const COEFF_B: Tf109 = MontFp!("69");
    type TECurveConfig = Self;
}
impl Elligator2Config for EllCm1 {
    const Z: Tf109 = MontFp!("2");
    const ONE_OVER_COEFF_B_SQUARE: Tf109 = MontFp!("28");
    const COEFF_A_OVER_COEFF_B: Tf109 = MontFp!("59");
}

/// 5x^2 + y^2 = 1 + 6x^2y^2 over F_89; Montgomery 85t^2 = s^3 + 67s^2 + s; cofactor 8; Z = 3
#[derive(Clone, Default, PartialEq, Eq)]
pub struct EllC5;
impl CurveConfig for EllC5 {
    type BaseField = Tf89;
    type ScalarField = Tf13;
    const COFACTOR: &'static [u64] = &[8];
    const COFACTOR_INV: Tf13 = MontFp!("5");
}
impl TECurveConfig for EllC5 {
    const COEFF_A: Tf89 = MontFp!("5");
    const COEFF_D: Tf89 = MontFp!("6");
    const GENERATOR: te::Affine<Self> = te::Affine::new_unchecked(MontFp!("37"), MontFp!("33"));
    type MontCurveConfig = Self;
}
impl MontCurveConfig for EllC5 {
    const COEFF_A: Tf89 = MontFp!("67");
    const COEFF_B: Tf89 = MontFp!("85");
    type TECurveConfig = Self;
}
impl Elligator2Config for EllC5 {
    const Z: Tf89 = MontFp!("3");
    const ONE_OVER_COEFF_B_SQUARE: Tf89 = MontFp!("39");
    const COEFF_A_OVER_COEFF_B: Tf89 = MontFp!("50");
}

/// 102x^2 + y^2 = 1 + 11x^2y^2 over F_103; Montgomery 34t^2 = s^3 + 67s^2 + s; cofactor 8; Z = -1
#[derive(Clone, Default, PartialEq, Eq)]
pub struct EllN;
impl CurveConfig for EllN {
    type BaseField = Tf103;
    type ScalarField = Tf13;
    const COFACTOR: &'static [u64] = &[8];
    const COFACTOR_INV: Tf13 = MontFp!("5");
}
impl TECurveConfig for EllN {
    const COEFF_A: Tf103 = MontFp!("102");
    const COEFF_D: Tf103 = MontFp!("11");
    const GENERATOR: te::Affine<Self> = te::Affine::new_unchecked(MontFp!("35"), MontFp!("49"));
    type MontCurveConfig = Self;
}
impl MontCurveConfig for EllN {
    const COEFF_A: Tf103 = MontFp!("67");
    const COEFF_B: Tf103 = MontFp!("34");
    type TECurveConfig = Self;
}
impl Elligator2Config for EllN {
    const Z: Tf103 = MontFp!("-1");
    const ONE_OVER_COEFF_B_SQUARE: Tf103 = MontFp!("9");
    const COEFF_A_OVER_COEFF_B: Tf103 = MontFp!("5");
}

/// 2x^2 + y^2 = 1 + 11x^2y^2 over F_107; Montgomery 59t^2 = s^3 + 9s^2 + s; cofactor 8; Z = -1
#[derive(Clone, Default, PartialEq, Eq)]
pub struct EllN2;
impl CurveConfig for EllN2 {
    type BaseField = Tf107;
    type ScalarField = Tf13;
    const COFACTOR: &'static [u64] = &[8];
    const COFACTOR_INV: Tf13 = MontFp!("5");
}
impl TECurveConfig for EllN2 {
    const COEFF_A: Tf107 = MontFp!("2");
    const COEFF_D: Tf107 = MontFp!("11");
    const GENERATOR: te::Affine<Self> = te::Affine::new_unchecked(MontFp!("25"), MontFp!("92"));
    type MontCurveConfig = Self;
}
impl MontCurveConfig for EllN2 {
    const COEFF_A: Tf107 = MontFp!("9");
    const COEFF_B: Tf107 = MontFp!("59");
    type TECurveConfig = Self;
}
impl Elligator2Config for EllN2 {
    const Z: Tf107 = MontFp!("-1");
    const ONE_OVER_COEFF_B_SQUARE: Tf107 = MontFp!("92");
    const COEFF_A_OVER_COEFF_B: Tf107 = MontFp!("60");
}

/// 1x^2 + y^2 = 1 + 5x^2y^2 over F_1013; Montgomery 1012t^2 = s^3 + 1010s^2 + s; cofactor 16; Z = 2
#[derive(Clone, Default, PartialEq, Eq)]
pub struct EllBig;
impl CurveConfig for EllBig {
    type BaseField = Tf1013;
    type ScalarField = Tf61;
    const COFACTOR: &'static [u64] = &[16];
    const COFACTOR_INV: Tf61 = MontFp!("42");
}
impl TECurveConfig for EllBig {
    const COEFF_A: Tf1013 = MontFp!("1");
    const COEFF_D: Tf1013 = MontFp!("5");
    const GENERATOR: te::Affine<Self> = te::Affine::new_unchecked(MontFp!("370"), MontFp!("866"));
    type MontCurveConfig = Self;
}
impl MontCurveConfig for EllBig {
    const COEFF_A: Tf1013 = MontFp!("1010");
    const COEFF_B: Tf1013 = MontFp!("1012");
    type TECurveConfig = Self;
}
impl Elligator2Config for EllBig {
    const Z: Tf1013 = MontFp!("2");
    const ONE_OVER_COEFF_B_SQUARE: Tf1013 = MontFp!("1");
    const COEFF_A_OVER_COEFF_B: Tf1013 = MontFp!("3");
}

/// 100x^2 + y^2 = 1 + 12x^2y^2 over F_101; Montgomery 23t^2 = s^3 + 76s^2 + s; cofactor 8; Z = 2
#[derive(Clone, Default, PartialEq, Eq)]
pub struct EllRepo101;
impl CurveConfig for EllRepo101 {
    type BaseField = Tf101;
    type ScalarField = Tf11;
    const COFACTOR: &'static [u64] = &[8];
    const COFACTOR_INV: Tf11 = MontFp!("7");
}
impl TECurveConfig for EllRepo101 {
    const COEFF_A: Tf101 = MontFp!("100");
    const COEFF_D: Tf101 = MontFp!("12");
    const GENERATOR: te::Affine<Self> = te::Affine::new_unchecked(MontFp!("23"), MontFp!("24"));
    type MontCurveConfig = Self;
}
impl MontCurveConfig for EllRepo101 {
    const COEFF_A: Tf101 = MontFp!("76");
    const COEFF_B: Tf101 = MontFp!("23");
    type TECurveConfig = Self;
}
impl Elligator2Config for EllRepo101 {
    const Z: Tf101 = MontFp!("2");
    const ONE_OVER_COEFF_B_SQUARE: Tf101 = MontFp!("80");
    const COEFF_A_OVER_COEFF_B: Tf101 = MontFp!("56");
}
