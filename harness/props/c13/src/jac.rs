//! Inversion-free double-and-add (Jacobian coordinates, formulas dbl-2007-bl / madd-2007-bl of the
//! Explicit-Formulas Database) used where the textbook affine oracle of `vh_core::curve` would spend
//! most of its time in field inversions.  Written over `Field` operations only and cross-checked
//! against the affine oracle by the relation `oracle/jacobian`.
use ark_ff::Field;
use num_bigint::BigUint;
use vh_core::curve::Sw;

#[derive(Clone, Copy)]
struct Jac<F: Field> {
    x: F,
    y: F,
    z: F,
}

fn dbl<F: Field>(a: &F, p: &Jac<F>) -> Jac<F> {
    if p.z.is_zero() || p.y.is_zero() {
        return Jac { x: F::one(), y: F::one(), z: F::zero() };
    }
    let xx = p.x.square();
    let yy = p.y.square();
    let yyyy = yy.square();
    let zz = p.z.square();
    let s = ((p.x + yy).square() - xx - yyyy).double();
    let m = xx.double() + xx + *a * zz.square();
    let t = m.square() - s.double();
    let y3 = m * (s - t) - yyyy.double().double().double();
    let z3 = (p.y + p.z).square() - yy - zz;
    Jac { x: t, y: y3, z: z3 }
}

/// p + (x2, y2) with an affine second operand
fn madd<F: Field>(a: &F, p: &Jac<F>, x2: &F, y2: &F) -> Jac<F> {
    if p.z.is_zero() {
        return Jac { x: *x2, y: *y2, z: F::one() };
    }
    let z1z1 = p.z.square();
    let u2 = *x2 * z1z1;
    let s2 = *y2 * p.z * z1z1;
    let h = u2 - p.x;
    let r = (s2 - p.y).double();
    if h.is_zero() {
        if r.is_zero() {
            return dbl(a, p);
        }
        return Jac { x: F::one(), y: F::one(), z: F::zero() };
    }
    let hh = h.square();
    let i = hh.double().double();
    let j = h * i;
    let v = p.x * i;
    let x3 = r.square() - j - v.double();
    let y3 = r * (v - x3) - (p.y * j).double();
    let z3 = (p.z + h).square() - z1z1 - hh;
    Jac { x: x3, y: y3, z: z3 }
}

/// k * P, most significant bit first
pub fn sw_mul_jac<F: Field>(a: &F, p: &Sw<F>, k: &BigUint) -> Sw<F> {
    let (x2, y2) = match p {
        Sw::Inf => return Sw::Inf,
        Sw::Aff(x, y) => (*x, *y),
    };
    let mut r = Jac { x: F::one(), y: F::one(), z: F::zero() };
    for i in (0..k.bits()).rev() {
        r = dbl(a, &r);
        if k.bit(i) {
            r = madd(a, &r, &x2, &y2);
        }
    }
    if r.z.is_zero() {
        Sw::Inf
    } else {
        let zi = r.z.inverse().unwrap();
        let zi2 = zi.square();
        Sw::Aff(r.x * zi2, r.y * zi2 * zi)
    }
}
