//! Field algebra on top of `vh_core::tower` (BigUint schoolbook arithmetic): inversion, square test,
//! Tonelli–Shanks square roots, RFC 9380 `sgn0`, and root finding for small polynomials
//! (Cantor–Zassenhaus, deterministic shifts).  Nothing here calls arkworks.
use num_bigint::BigUint;
use num_traits::{One, Zero};
use vh_core::modint::{invm, FieldCtx};
use vh_core::tower::{Elem, Tower};

pub struct Fa {
    pub tw: Tower,
    pub prime: FieldCtx,
    pub q: BigUint,
    /// q - 1 = 2^s * odd
    s: u32,
    odd: BigUint,
    /// z^odd for a fixed non-square z
    c: Elem,
}

impl Fa {
    pub fn new(tw: Tower) -> Fa {
        let p = tw.characteristic().clone();
        let mut l = p.to_u64_digits();
        if l.is_empty() {
            l.push(0);
        }
        let prime = FieldCtx::new("", &l);
        let q = tw.order();
        assert!(q.bit(0), "odd characteristic only");
        let mut odd = &q - 1u32;
        let mut s = 0u32;
        while !odd.bit(0) {
            odd >>= 1;
            s += 1;
        }
        let mut fa = Fa { tw, prime, q, s, odd, c: Elem::P(BigUint::zero()) };
        // smallest non-square in a fixed enumeration
        let mut k = 1u64;
        let z = loop {
            let e = fa.small(k);
            if !fa.is_zero(&e) && !fa.is_square(&e) {
                break e;
            }
            k += 1;
        };
        fa.c = fa.tw.pow(&z, &fa.odd);
        fa
    }
    /// k-th element of a fixed enumeration: low base-8 digits of k are the first coordinates, the rest of k is the last one
    pub fn small(&self, mut k: u64) -> Elem {
        let d = self.tw.degree();
        let mut c = vec![BigUint::zero(); d];
        for ci in c.iter_mut().take(d - 1) {
            *ci = BigUint::from(k % 8);
            k /= 8;
        }
        c[d - 1] = BigUint::from(k);
        self.tw.unflatten(&c)
    }
    pub fn zero(&self) -> Elem {
        self.tw.zero()
    }
    pub fn one(&self) -> Elem {
        self.tw.one()
    }
    pub fn int(&self, v: i64) -> Elem {
        let e = self.tw.from_int(&BigUint::from(v.unsigned_abs()));
        if v < 0 {
            self.tw.neg(&e)
        } else {
            e
        }
    }
    pub fn is_zero(&self, a: &Elem) -> bool {
        self.tw.is_zero(a)
    }
    pub fn add(&self, a: &Elem, b: &Elem) -> Elem {
        self.tw.add(a, b)
    }
    pub fn sub(&self, a: &Elem, b: &Elem) -> Elem {
        self.tw.sub(a, b)
    }
    pub fn neg(&self, a: &Elem) -> Elem {
        self.tw.neg(a)
    }
    pub fn mul(&self, a: &Elem, b: &Elem) -> Elem {
        self.tw.mul(a, b)
    }
    pub fn sq(&self, a: &Elem) -> Elem {
        self.tw.mul(a, a)
    }
    /// inverse: extended Euclid in the prime field, conjugate/norm in a quadratic extension,
    /// a^(q-2) otherwise
    pub fn inv(&self, a: &Elem) -> Option<Elem> {
        if self.is_zero(a) {
            return None;
        }
        inv_rec(&self.tw, a)
    }
    /// RFC 9380 inv0: inverse with inv0(0) = 0
    pub fn inv0(&self, a: &Elem) -> Elem {
        self.inv(a).unwrap_or_else(|| self.zero())
    }
    pub fn div(&self, a: &Elem, b: &Elem) -> Elem {
        self.mul(a, &self.inv(b).expect("division by zero in the reference"))
    }
    /// square test (0 counts as a square): Euler criterion in the prime field; in a quadratic extension
    /// a is a square iff its norm is a square in the base field (a^((q^2-1)/2) = N(a)^((q-1)/2)).
    /// `slow_is_square` is the plain Euler criterion in the whole field (used to cross-check).
    pub fn is_square(&self, a: &Elem) -> bool {
        is_square_rec(&self.tw, a)
    }
    pub fn slow_is_square(&self, a: &Elem) -> bool {
        self.tw.is_square(a)
    }
    /// a square root (any of the two), `None` for non-squares; the result is verified by squaring
    pub fn sqrt(&self, a: &Elem) -> Option<Elem> {
        let r = if fast_supported(&self.tw) { sqrt_rec(&self.tw, a) } else { self.slow_sqrt(a) }?;
        assert!(self.sq(&r) == *a, "reference sqrt produced a wrong root");
        Some(r)
    }
    /// Tonelli–Shanks in the whole field with schoolbook exponentiation
    pub fn slow_sqrt(&self, a: &Elem) -> Option<Elem> {
        if self.is_zero(a) {
            return Some(self.zero());
        }
        if !self.tw.is_square(a) {
            return None;
        }
        let one = self.one();
        let mut m = self.s;
        let mut c = self.c.clone();
        let mut t = self.tw.pow(a, &self.odd);
        let mut r = self.tw.pow(a, &((&self.odd + 1u32) >> 1));
        while t != one {
            let mut i = 0u32;
            let mut tt = t.clone();
            while tt != one {
                tt = self.sq(&tt);
                i += 1;
                assert!(i < m, "Tonelli–Shanks: not a square");
            }
            let mut b = c.clone();
            for _ in 0..(m - i - 1) {
                b = self.sq(&b);
            }
            m = i;
            c = self.sq(&b);
            t = self.mul(&t, &c);
            r = self.mul(&r, &b);
        }
        assert!(self.sq(&r) == *a);
        Some(r)
    }
    /// RFC 9380 section 4.1: sgn0 over F_p^m (coordinates in ascending order)
    pub fn sgn0(&self, a: &Elem) -> bool {
        let mut sign = false;
        let mut zero = true;
        for c in self.tw.flatten(a) {
            let sign_i = c.bit(0);
            let zero_i = c.is_zero();
            sign = sign || (zero && sign_i);
            zero = zero && zero_i;
        }
        sign
    }
    pub fn hex(&self, a: &Elem) -> String {
        let v: Vec<String> = self.tw.flatten(a).iter().map(|c| format!("0x{:x}", c)).collect();
        if v.len() == 1 {
            v[0].clone()
        } else {
            format!("({})", v.join(", "))
        }
    }

    // ---------------------------------------------------------------------------------
    // polynomials (little-endian coefficient vectors, trimmed)
    // ---------------------------------------------------------------------------------
    fn ptrim(&self, mut a: Vec<Elem>) -> Vec<Elem> {
        while let Some(l) = a.last() {
            if self.is_zero(l) {
                a.pop();
            } else {
                break;
            }
        }
        a
    }
    fn pmonic(&self, a: Vec<Elem>) -> Vec<Elem> {
        let a = self.ptrim(a);
        if a.is_empty() {
            return a;
        }
        let li = self.inv(a.last().unwrap()).unwrap();
        a.iter().map(|c| self.mul(c, &li)).collect()
    }
    /// remainder of a modulo monic f
    fn prem(&self, a: Vec<Elem>, f: &[Elem]) -> Vec<Elem> {
        let mut a = self.ptrim(a);
        let df = f.len() - 1;
        while a.len() > df {
            let lead = a.pop().unwrap();
            if self.is_zero(&lead) {
                continue;
            }
            let off = a.len() - df;
            for i in 0..df {
                let t = self.mul(&lead, &f[i]);
                a[off + i] = self.sub(&a[off + i], &t);
            }
        }
        self.ptrim(a)
    }
    fn pmul(&self, a: &[Elem], b: &[Elem]) -> Vec<Elem> {
        if a.is_empty() || b.is_empty() {
            return vec![];
        }
        let mut out = vec![self.zero(); a.len() + b.len() - 1];
        for (i, x) in a.iter().enumerate() {
            for (j, y) in b.iter().enumerate() {
                out[i + j] = self.add(&out[i + j], &self.mul(x, y));
            }
        }
        out
    }
    fn ppowmod(&self, base: &[Elem], e: &BigUint, f: &[Elem]) -> Vec<Elem> {
        let mut res = self.prem(vec![self.one()], f);
        for i in (0..e.bits()).rev() {
            res = self.prem(self.pmul(&res, &res), f);
            if e.bit(i) {
                res = self.prem(self.pmul(&res, base), f);
            }
        }
        res
    }
    fn pgcd(&self, a: Vec<Elem>, b: Vec<Elem>) -> Vec<Elem> {
        let mut a = self.pmonic(a);
        let mut b = self.pmonic(b);
        while !b.is_empty() {
            let r = self.pmonic(self.prem(a, &b));
            a = b;
            b = r;
        }
        a
    }
    /// exact quotient a / b (b monic)
    fn pdiv(&self, a: &[Elem], b: &[Elem]) -> Vec<Elem> {
        let mut a = a.to_vec();
        let db = b.len() - 1;
        let mut quo = vec![self.zero(); a.len() - db];
        while a.len() > db {
            let lead = a.pop().unwrap();
            let off = a.len() - db;
            quo[off] = lead.clone();
            for i in 0..db {
                let t = self.mul(&lead, &b[i]);
                a[off + i] = self.sub(&a[off + i], &t);
            }
        }
        quo
    }
    /// all roots in the field (each once), in a deterministic order
    pub fn roots(&self, f: &[Elem]) -> Vec<Elem> {
        let f = self.pmonic(f.to_vec());
        if f.len() <= 1 {
            return vec![];
        }
        // g = gcd(x^q - x, f): product of the distinct linear factors
        let x = vec![self.zero(), self.one()];
        let xq = self.ppowmod(&self.prem(x.clone(), &f), &self.q, &f);
        let mut d = xq;
        if d.len() < 2 {
            d.resize(2, self.zero());
        }
        d[1] = self.sub(&d[1], &self.one());
        let g = self.pgcd(f.clone(), self.ptrim(d));
        let mut out = Vec::new();
        self.split(g, 1, &mut out);
        out
    }
    fn split(&self, g: Vec<Elem>, mut k: u64, out: &mut Vec<Elem>) {
        if g.len() <= 1 {
            return;
        }
        if g.len() == 2 {
            out.push(self.neg(&g[0]));
            return;
        }
        let e = (&self.q - 1u32) >> 1;
        loop {
            let delta = self.small(k);
            k += 1;
            let base = self.prem(vec![delta, self.one()], &g);
            let mut h = self.ppowmod(&base, &e, &g);
            if h.is_empty() {
                h.push(self.zero());
            }
            h[0] = self.sub(&h[0], &self.one());
            let d = self.pgcd(g.clone(), self.ptrim(h));
            if d.len() > 1 && d.len() < g.len() {
                let other = self.pdiv(&g, &d);
                self.split(d, k, out);
                self.split(other, k, out);
                return;
            }
            assert!(k < 4096, "root splitting did not converge");
        }
    }
    /// Horner evaluation of a little-endian coefficient vector
    pub fn peval(&self, f: &[Elem], x: &Elem) -> Elem {
        let mut acc = self.zero();
        for c in f.iter().rev() {
            acc = self.add(&self.mul(&acc, x), c);
        }
        acc
    }
}

fn inv_rec(tw: &Tower, a: &Elem) -> Option<Elem> {
    match (tw, a) {
        (Tower::Prime { p, .. }, Elem::P(x)) => invm(x, p).map(Elem::P),
        (Tower::Ext { deg: 2, base, nonresidue }, Elem::E(v)) => {
            // (a0 + a1 X)^-1 = (a0 - a1 X) / (a0^2 - beta a1^2)
            let n = base.sub(&base.mul(&v[0], &v[0]), &base.mul(nonresidue, &base.mul(&v[1], &v[1])));
            let ni = inv_rec(base, &n)?;
            Some(Elem::E(vec![base.mul(&v[0], &ni), base.neg(&base.mul(&v[1], &ni))]))
        },
        _ => tw.inv(a),
    }
}

fn fast_supported(tw: &Tower) -> bool {
    match tw {
        Tower::Prime { .. } => true,
        Tower::Ext { deg: 2, base, .. } => fast_supported(base),
        _ => false,
    }
}

fn norm2(base: &Tower, nonresidue: &Elem, v: &[Elem]) -> Elem {
    base.sub(&base.mul(&v[0], &v[0]), &base.mul(nonresidue, &base.mul(&v[1], &v[1])))
}

fn is_square_rec(tw: &Tower, a: &Elem) -> bool {
    match (tw, a) {
        (Tower::Prime { p, .. }, Elem::P(x)) => x.is_zero() || !p.bit(0) || x.modpow(&((p - 1u32) >> 1), p).is_one(),
        (Tower::Ext { deg: 2, base, nonresidue }, Elem::E(v)) => is_square_rec(base, &norm2(base, nonresidue, v)),
        _ => tw.is_square(a),
    }
}

/// Tonelli–Shanks on integers mod p
fn sqrt_prime(x: &BigUint, p: &BigUint) -> Option<BigUint> {
    if x.is_zero() {
        return Some(BigUint::zero());
    }
    let e = (p - 1u32) >> 1;
    if !x.modpow(&e, p).is_one() {
        return None;
    }
    let mut odd = p - 1u32;
    let mut s = 0u32;
    while !odd.bit(0) {
        odd >>= 1;
        s += 1;
    }
    let mut z = BigUint::from(2u32);
    while z.modpow(&e, p).is_one() {
        z += 1u32;
    }
    let mut m = s;
    let mut c = z.modpow(&odd, p);
    let mut t = x.modpow(&odd, p);
    let mut r = x.modpow(&((&odd + 1u32) >> 1), p);
    while !t.is_one() {
        let mut i = 0u32;
        let mut tt = t.clone();
        while !tt.is_one() {
            tt = (&tt * &tt) % p;
            i += 1;
        }
        let mut b = c.clone();
        for _ in 0..(m - i - 1) {
            b = (&b * &b) % p;
        }
        m = i;
        c = (&b * &b) % p;
        t = (t * &c) % p;
        r = (r * &b) % p;
    }
    Some(r)
}

/// square roots in the prime field and, recursively, in quadratic extensions
/// (x0 + x1 X)^2 = a0 + a1 X with x0^2 = (a0 ± sqrt(N(a)))/2, x1 = a1 / (2 x0)
fn sqrt_rec(tw: &Tower, a: &Elem) -> Option<Elem> {
    match (tw, a) {
        (Tower::Prime { p, .. }, Elem::P(x)) => sqrt_prime(x, p).map(Elem::P),
        (Tower::Ext { deg: 2, base, nonresidue }, Elem::E(v)) => {
            if base.is_zero(&v[1]) {
                if let Some(s) = sqrt_rec(base, &v[0]) {
                    return Some(Elem::E(vec![s, base.zero()]));
                }
                // a0 is a non-square of the base field: sqrt(a0) = sqrt(a0 / beta) X
                let t = sqrt_rec(base, &base.mul(&v[0], &inv_rec(base, nonresidue)?))?;
                return Some(Elem::E(vec![base.zero(), t]));
            }
            let n = norm2(base, nonresidue, v);
            let s = sqrt_rec(base, &n)?;
            let half = inv_rec(base, &base.from_int(&BigUint::from(2u32)))?;
            for s in [s.clone(), base.neg(&s)] {
                let delta = base.mul(&base.add(&v[0], &s), &half);
                if let Some(x0) = sqrt_rec(base, &delta) {
                    if base.is_zero(&x0) {
                        continue;
                    }
                    let x1 = base.mul(&v[1], &inv_rec(base, &base.add(&x0, &x0))?);
                    return Some(Elem::E(vec![x0, x1]));
                }
            }
            None
        },
        _ => None,
    }
}

pub fn big_hex(s: &str) -> BigUint {
    BigUint::parse_bytes(s.trim_start_matches("0x").as_bytes(), 16).expect("hex literal")
}
