//! Byte-level reference of RFC 9380 section 5: `expand_message_xmd` (SHA-256) and `hash_to_field`.
//! Uses only the `sha2` crate and BigUint.
use num_bigint::BigUint;
use sha2::{Digest, Sha256};

const B_IN_BYTES: usize = 32; // output size of SHA-256
const S_IN_BYTES: usize = 64; // input block size of SHA-256

/// RFC 9380 section 5.3.1 with the oversize-DST rule of section 5.3.3.
pub fn expand_message_xmd(msg: &[u8], dst: &[u8], len_in_bytes: usize) -> Vec<u8> {
    let ell = (len_in_bytes + B_IN_BYTES - 1) / B_IN_BYTES;
    assert!(ell <= 255 && len_in_bytes <= 65535, "expand_message_xmd: requested length too large");
    // 5.3.3: DST = H("H2C-OVERSIZE-DST-" || a_very_long_DST)
    let dst: Vec<u8> = if dst.len() > 255 {
        let mut h = Sha256::new();
        h.update(b"H2C-OVERSIZE-DST-");
        h.update(dst);
        h.finalize().to_vec()
    } else {
        dst.to_vec()
    };
    let mut dst_prime = dst.clone();
    dst_prime.push(dst.len() as u8); // I2OSP(len(DST), 1)
    let z_pad = [0u8; S_IN_BYTES];
    let l_i_b_str = [(len_in_bytes >> 8) as u8, (len_in_bytes & 0xff) as u8]; // I2OSP(len_in_bytes, 2)
    // b_0 = H(Z_pad || msg || l_i_b_str || I2OSP(0, 1) || DST_prime)
    let mut h = Sha256::new();
    h.update(z_pad);
    h.update(msg);
    h.update(l_i_b_str);
    h.update([0u8]);
    h.update(&dst_prime);
    let b0 = h.finalize().to_vec();
    // b_1 = H(b_0 || I2OSP(1, 1) || DST_prime)
    let mut h = Sha256::new();
    h.update(&b0);
    h.update([1u8]);
    h.update(&dst_prime);
    let mut bi = h.finalize().to_vec();
    let mut uniform = bi.clone();
    for i in 2..=ell {
        // b_i = H(strxor(b_0, b_(i - 1)) || I2OSP(i, 1) || DST_prime)
        let x: Vec<u8> = b0.iter().zip(bi.iter()).map(|(a, b)| a ^ b).collect();
        let mut h = Sha256::new();
        h.update(&x);
        h.update([i as u8]);
        h.update(&dst_prime);
        bi = h.finalize().to_vec();
        uniform.extend_from_slice(&bi);
    }
    uniform.truncate(len_in_bytes);
    uniform
}

/// L = ceil((ceil(log2(p)) + k) / 8)
pub fn len_per_elem(p: &BigUint, k: usize) -> usize {
    (p.bits() as usize + k + 7) / 8
}

/// RFC 9380 section 5.2: `count` elements of F_p^m, each as its m prime-field coordinates.
pub fn hash_to_field(msg: &[u8], dst: &[u8], p: &BigUint, m: usize, count: usize) -> Vec<Vec<BigUint>> {
    hash_to_field_k(msg, dst, p, m, count, 128)
}

/// the same with an explicit security parameter k (RFC 9380 section 5.1: L = ceil((ceil(log2 p) + k) / 8))
pub fn hash_to_field_k(msg: &[u8], dst: &[u8], p: &BigUint, m: usize, count: usize, k: usize) -> Vec<Vec<BigUint>> {
    let l = len_per_elem(p, k);
    let uniform = expand_message_xmd(msg, dst, count * m * l);
    let mut out = Vec::with_capacity(count);
    for i in 0..count {
        let mut e = Vec::with_capacity(m);
        for j in 0..m {
            let off = l * (j + i * m);
            let tv = &uniform[off..off + l];
            e.push(BigUint::from_bytes_be(tv) % p); // OS2IP(tv) mod p
        }
        out.push(e);
    }
    out
}
