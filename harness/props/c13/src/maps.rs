//! Reference maps of RFC 9380 section 6 over the BigUint tower: simplified SWU (6.6.2), the
//! isogeny evaluation of 6.6.3 (constants supplied by the caller), the Montgomery part of
//! Elligator 2 (6.7.1), and the computation of the exceptional inputs of these maps.
use crate::fa::Fa;
use vh_core::tower::Elem;

/// affine point, `None` = identity
pub type Pt = Option<(Elem, Elem)>;

pub struct SwuParams {
    pub a: Elem,
    pub b: Elem,
    pub z: Elem,
}

#[derive(Clone, Copy, Debug, Default)]
pub struct SwuTrace {
    /// Z^2 u^4 + Z u^2 = 0 (the exceptional denominator)
    pub tv1_zero: bool,
    pub gx1_square: bool,
    pub y_zero: bool,
}

pub fn g_of(f: &Fa, a: &Elem, b: &Elem, x: &Elem) -> Elem {
    // x^3 + A x + B
    f.add(&f.add(&f.mul(&f.sq(x), x), &f.mul(a, x)), b)
}

/// RFC 9380 section 6.6.2, operations in the order of the specification.
pub fn swu(f: &Fa, pr: &SwuParams, u: &Elem) -> ((Elem, Elem), SwuTrace) {
    let (a, b, z) = (&pr.a, &pr.b, &pr.z);
    let u2 = f.sq(u);
    let zu2 = f.mul(z, &u2);
    // 1. tv1 = inv0(Z^2 * u^4 + Z * u^2)
    let den = f.add(&f.sq(&zu2), &zu2);
    let tv1 = f.inv0(&den);
    // 2. x1 = (-B / A) * (1 + tv1)
    let mut x1 = f.mul(&f.neg(&f.div(b, a)), &f.add(&f.one(), &tv1));
    // 3. If tv1 == 0, set x1 = B / (Z * A)
    let tv1_zero = f.is_zero(&tv1);
    if tv1_zero {
        x1 = f.div(b, &f.mul(z, a));
    }
    // 4. gx1 = x1^3 + A * x1 + B
    let gx1 = g_of(f, a, b, &x1);
    // 5. x2 = Z * u^2 * x1
    let x2 = f.mul(&zu2, &x1);
    // 6. gx2 = x2^3 + A * x2 + B
    let gx2 = g_of(f, a, b, &x2);
    // 7./8.
    let gx1_square = f.is_square(&gx1);
    let (x, mut y) = if gx1_square {
        (x1, f.sqrt(&gx1).expect("gx1 is a square"))
    } else {
        (x2, f.sqrt(&gx2).expect("RFC 9380: gx2 is a square when gx1 is not (Z non-square, g(B/(ZA)) square)"))
    };
    // 9. If sgn0(u) != sgn0(y), set y = -y
    if f.sgn0(u) != f.sgn0(&y) {
        y = f.neg(&y);
    }
    let y_zero = f.is_zero(&y);
    ((x, y), SwuTrace { tv1_zero, gx1_square, y_zero })
}

/// The criteria of RFC 9380 appendix H.2 that the map's correctness relies on:
/// Z is a non-square, Z != -1, and g(B / (Z A)) is a square; also A B != 0.
pub fn swu_params_ok(f: &Fa, pr: &SwuParams) -> Result<(), String> {
    if f.is_zero(&pr.a) || f.is_zero(&pr.b) {
        return Err("A*B = 0".into());
    }
    if f.is_square(&pr.z) {
        return Err("Z is a square".into());
    }
    if pr.z == f.int(-1) {
        return Err("Z = -1".into());
    }
    let x = f.div(&pr.b, &f.mul(&pr.z, &pr.a));
    if !f.is_square(&g_of(f, &pr.a, &pr.b, &x)) {
        return Err("g(B/(Z*A)) is not a square".into());
    }
    Ok(())
}

pub fn sw_on_curve(f: &Fa, a: &Elem, b: &Elem, p: &Pt) -> bool {
    match p {
        None => true,
        Some((x, y)) => f.sq(y) == g_of(f, a, b, x),
    }
}

/// rational map with little-endian coefficient vectors
pub struct IsoRef {
    pub xn: Vec<Elem>,
    pub xd: Vec<Elem>,
    pub yn: Vec<Elem>,
    pub yd: Vec<Elem>,
}

/// RFC 9380 section 6.6.3 / appendix E: x = x_num(x') / x_den(x'), y = y' * y_num(x') / y_den(x');
/// a zero denominator means that the input lies in the kernel: the result is the identity.
pub fn iso(f: &Fa, m: &IsoRef, p: &Pt) -> Pt {
    let (x, y) = match p {
        None => return None,
        Some(v) => v,
    };
    let xd = f.peval(&m.xd, x);
    let yd = f.peval(&m.yd, x);
    if f.is_zero(&xd) || f.is_zero(&yd) {
        return None;
    }
    let xn = f.peval(&m.xn, x);
    let yn = f.peval(&m.yn, x);
    Some((f.div(&xn, &xd), f.mul(y, &f.div(&yn, &yd))))
}

/// Inputs u for which the simplified SWU map takes one of its special paths:
/// u = 0 and the other roots of Z^2 u^4 + Z u^2, and every u whose image has its x-coordinate in
/// `targets` (roots of g: the 2-torsion, y = 0; roots of the isogeny's denominators: the kernel).
pub fn swu_exceptional(f: &Fa, pr: &SwuParams, targets: &[Elem]) -> Vec<(Elem, &'static str)> {
    let mut out: Vec<(Elem, &'static str)> = vec![(f.zero(), "exc:u=0")];
    let push = |out: &mut Vec<(Elem, &'static str)>, u: Elem, c: &'static str| {
        for v in [u.clone(), f.neg(&u)] {
            if !out.iter().any(|(e, _)| *e == v) {
                out.push((v, c));
            }
        }
    };
    // Z u^2 = -1  <=>  u^2 = -1/Z
    if let Some(u) = f.sqrt(&f.neg(&f.inv(&pr.z).unwrap())) {
        push(&mut out, u, "exc:Zu^2=-1");
    }
    let two_inv = f.inv(&f.int(2)).unwrap();
    let zi = f.inv(&pr.z).unwrap();
    for x0 in targets {
        // k = -A x0 / B
        let k = f.neg(&f.div(&f.mul(&pr.a, x0), &pr.b));
        let mut ws: Vec<Elem> = Vec::new();
        // x1(u) = x0: with w = Z u^2, (1 + 1/(w^2 + w)) = k, i.e. w^2 + w - 1/(k - 1) = 0
        let c = f.sub(&k, &f.one());
        if let Some(ci) = f.inv(&c) {
            let disc = f.add(&f.one(), &f.mul(&f.int(4), &ci));
            if let Some(sd) = f.sqrt(&disc) {
                ws.push(f.mul(&f.sub(&sd, &f.one()), &two_inv));
                ws.push(f.mul(&f.sub(&f.neg(&sd), &f.one()), &two_inv));
            }
        }
        // x2(u) = w x1(u) = x0: w^2 + (1 - k) w + (1 - k) = 0
        let e = f.sub(&f.one(), &k);
        let disc = f.sub(&f.sq(&e), &f.mul(&f.int(4), &e));
        if let Some(sd) = f.sqrt(&disc) {
            ws.push(f.mul(&f.sub(&sd, &e), &two_inv));
            ws.push(f.mul(&f.sub(&f.neg(&sd), &e), &two_inv));
        }
        for w in ws {
            if let Some(u) = f.sqrt(&f.mul(&w, &zi)) {
                if f.is_zero(&u) {
                    continue;
                }
                // keep it only when the reference map really lands on x0
                let ((x, _), _) = swu(f, pr, &u);
                if x == *x0 {
                    push(&mut out, u, "exc:x=target");
                }
            }
        }
    }
    out
}

// ---------------------------------------------------------------------------------------------
// Elligator 2 (RFC 9380 section 6.7.1) on K t^2 = s^3 + J s^2 + s, through y^2 = x^3 + (J/K) x^2 + x/K^2
// ---------------------------------------------------------------------------------------------

pub struct Ell2Params {
    pub j: Elem,
    pub k: Elem,
    pub z: Elem,
}

#[derive(Clone, Copy, Debug, Default)]
pub struct Ell2Trace {
    /// 1 + Z u^2 = 0
    pub den_zero: bool,
    pub gx1_square: bool,
}

/// RFC 9380 section 6.7.1 steps 1–9: the point (x, y) on y^2 = x^3 + (J/K) x^2 + x/K^2
pub fn ell2_weierstrass_like(f: &Fa, pr: &Ell2Params, u: &Elem) -> ((Elem, Elem), Ell2Trace) {
    let jk = f.div(&pr.j, &pr.k);
    let k2i = f.inv(&f.sq(&pr.k)).unwrap();
    let g = |x: &Elem| f.add(&f.add(&f.mul(&f.sq(x), x), &f.mul(&jk, &f.sq(x))), &f.mul(x, &k2i));
    // 1. x1 = -(J / K) * inv0(1 + Z * u^2); 2. If x1 == 0, set x1 = -(J / K)
    let den = f.add(&f.one(), &f.mul(&pr.z, &f.sq(u)));
    let den_zero = f.is_zero(&den);
    let mut x1 = f.mul(&f.neg(&jk), &f.inv0(&den));
    if f.is_zero(&x1) {
        x1 = f.neg(&jk);
    }
    let gx1 = g(&x1);
    let x2 = f.sub(&f.neg(&x1), &jk);
    let gx2 = g(&x2);
    let gx1_square = f.is_square(&gx1);
    // 7. If is_square(gx1), set x = x1, y = sqrt(gx1) with sgn0(y) == 1
    // 8. Else set x = x2, y = sqrt(gx2) with sgn0(y) == 0
    let (x, mut y) = if gx1_square { (x1, f.sqrt(&gx1).unwrap()) } else { (x2, f.sqrt(&gx2).expect("gx2 is a square when gx1 is not")) };
    if f.sgn0(&y) != gx1_square {
        y = f.neg(&y);
    }
    ((x, y), Ell2Trace { den_zero, gx1_square })
}

/// roots of 1 + Z u^2
pub fn ell2_exceptional(f: &Fa, pr: &Ell2Params) -> Vec<(Elem, &'static str)> {
    let mut out = vec![(f.zero(), "exc:u=0")];
    if let Some(u) = f.sqrt(&f.neg(&f.inv(&pr.z).unwrap())) {
        out.push((u.clone(), "exc:1+Zu^2=0"));
        out.push((f.neg(&u), "exc:1+Zu^2=0"));
    }
    out
}
