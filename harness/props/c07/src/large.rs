//! C07, large domains: sizes above the thresholds inside the radix-2 butterflies (`apply_butterfly` switches to its
//! second arm for more than 1024 entries; root compaction starts at 256) and mixed-radix sizes of the same magnitude.
//! The O(n^2) Horner oracle of `fft_rel` is replaced by
//!   (i)  a linear functional that covers *every* output: for r outside the subgroup,
//!        sum_i out[i] r^i  =  sum_j c_j h^j (r^n - 1) / (r g^j - 1)          (geometric series, g^n = 1),
//!        which a wrong output vector satisfies for at most n - 1 values of r (r is a uniform field element from the tape),
//!   (ii) Horner evaluation at 16 output positions (0, 1, n/2, n-1 and tape-chosen ones) for position-exact messages.
//! Only field arithmetic (+, *, pow, one inversion) is used by the oracle.
use super::*;

pub(crate) struct LargeCfg {
    pub field: String,
    pub info: Info,
    /// constructible sizes of the kind in the large range
    pub sizes: Vec<u64>,
}

/// all sizes 2^a q^b of the kind with lo <= size <= hi that the constructor returns for n = size
pub(crate) fn lattice_sizes(kind: Kind, info: &Info, lo: u64, hi: u64) -> Vec<u64> {
    let mut v = Vec::new();
    let q = info.q.unwrap_or(1);
    let kmax = if kind == Kind::Radix2 || info.q.is_none() { 0 } else { info.k };
    let mut qb = 1u64;
    for b in 0..=kmax {
        if b > 0 {
            qb = match qb.checked_mul(q) {
                Some(x) => x,
                None => break,
            };
        }
        for a in 0..=info.s.min(40) {
            let x = match qb.checked_mul(1u64 << a) {
                Some(x) => x,
                None => break,
            };
            if x >= lo && x <= hi && expected_size(kind, info, x) == Some(x) {
                v.push(x);
            }
        }
    }
    v.sort();
    v.dedup();
    v
}

/// 1/x for every entry (all non-zero): prefix products and one field inversion
fn batch_inv<F: Field>(v: &mut [F]) {
    let mut pre = Vec::with_capacity(v.len());
    let mut acc = F::one();
    for x in v.iter() {
        pre.push(acc);
        acc *= x;
    }
    let mut inv = acc.inverse().expect("non-zero denominators");
    for i in (0..v.len()).rev() {
        let x = v[i];
        v[i] = inv * pre[i];
        inv *= x;
    }
}

/// sum_j c_j h^j (r^n - 1) / (r g^j - 1)
fn functional_of_coeffs<F: Field>(c: &[F], h: F, g: F, n: usize, r: F) -> F {
    if c.is_empty() {
        return F::zero();
    }
    let rn1 = r.pow([n as u64]) - F::one();
    let mut den = Vec::with_capacity(c.len());
    let mut x = r;
    for _ in 0..c.len() {
        den.push(x - F::one());
        x *= g;
    }
    batch_inv(&mut den);
    let mut hj = F::one();
    let mut acc = F::zero();
    for (cj, dj) in c.iter().zip(&den) {
        if !cj.is_zero() {
            acc += *cj * hj * dj;
        }
        hj *= h;
    }
    acc * rn1
}

/// a field element with r^n != 1 (so that r g^j != 1 for every j)
fn outside_subgroup<F: PrimeField>(t: &mut Tape<'_>, n: usize) -> F {
    let mut r = stream_felt::<F>(t.u64(), 3);
    while r.is_zero() || r.pow([n as u64]).is_one() {
        r += F::one();
    }
    r
}

fn sample_positions(t: &mut Tape<'_>, n: usize) -> Vec<usize> {
    let mut v = vec![0, 1 % n, n / 2, n - 1, n / 4, 3 * (n / 4) + 1 % n];
    for _ in 0..10 {
        v.push(t.idx(n));
    }
    v.iter_mut().for_each(|i| *i %= n);
    v
}

fn pick_large<F: PrimeField, D: DomKind<F>>(cfg: &LargeCfg, t: &mut Tape<'_>, o: &mut Obs) -> Result<(D, u64, F, &'static str), vh_core::Fail> {
    let size = cfg.sizes[t.idx(cfg.sizes.len())];
    let mut n = size - t.below(3);
    if expected_size(D::KIND, &cfg.info, n) != Some(size) {
        n = size;
    }
    let d0 = match no_panic("new", || D::new(n as usize))? {
        Some(d) => d,
        None => return Err(vh_core::Fail { sig: "new.none".into(), msg: format!("{}::new({}) = None, expected a domain of size {}", D::KIND.name(), n, size) }),
    };
    ensure_eq!(d0.size() as u64, size, "new.size", "{}::new({})", D::KIND.name(), n);
    let (h, hc, plain) = match t.weighted(&[3, 2, 2, 2]) {
        0 => (F::one(), "offset=1", t.bool()),
        1 => (F::GENERATOR, "offset=GENERATOR", false),
        2 => (felt_nonzero::<F>(t), "offset=tape", false),
        _ => (d0.group_gen().pow([1 + t.below(size - 1)]), "offset=in-subgroup", false),
    };
    let d = if plain {
        d0
    } else {
        match no_panic("get_coset", || d0.get_coset(h))? {
            Some(d) => d,
            None => return Err(vh_core::Fail { sig: "get_coset.none".into(), msg: format!("get_coset({}) = None", h) }),
        }
    };
    o.class(hc);
    o.class_if(!h.is_one(), "coset");
    o.class("large: size>1024");
    o.class_if(size >= 4096, "large: size>=4096");
    o.class_if(size >= 1 << 14, "large: size>=2^14");
    o.class_if(!d.is_radix2(), "mixed-radix implementation");
    if let Some(q) = cfg.info.q {
        o.class_if(size % q == 0, "mixed radix with b>=1");
    }
    Ok((d, n, h, hc))
}

pub(crate) fn fft_large_rel<F: PrimeField, D: DomKind<F>>(cfg: &LargeCfg, t: &mut Tape<'_>, o: &mut Obs) -> R {
    let (d, n, h, hc) = pick_large::<F, D>(cfg, t, o)?;
    let size = d.size();
    let q = size / 4;
    let len = match t.weighted(&[3, 2, 2, 2, 2, 1, 1, 1, 1]) {
        0 => size,
        1 => q,
        2 => q + 1,
        3 => t.below(q as u64 + 1) as usize,
        4 => t.below(size as u64 + 1) as usize,
        5 => size - 1,
        6 => size / 2 + 1,
        7 => 1usize << t.below(ark_std::log2(q.max(1)) as u64 + 1),
        _ => 1,
    }
    .min(size);
    let (c, vc) = vector::<F>(t, len);
    let g = d.group_gen();
    o.show(|| format!("{} {}::new({}) size {} {} (h={}) len {} {} c={}", cfg.field, D::KIND.name(), n, size, hc, h, len, vc, short(&c)));
    o.nt(len >= 1 && c.iter().any(|x| !x.is_zero()));
    o.class(vc);
    let aware = d.is_radix2() && len * 4 <= size;
    o.class_if(aware, "large: degree-aware path");
    o.class_if(d.is_radix2() && !aware, "large: full path");
    let ctx = format!("size {} {} len {}", size, hc, len);
    let got = no_panic("fft", || d.fft(&c))?;
    ensure_eq!(got.len(), size, "fft.len");
    // (i) the linear functional over all outputs
    let r = outside_subgroup::<F>(t, size);
    let lhs = horner(&got, &r);
    let rhs = functional_of_coeffs(&c, h, g, size, r);
    ensure!(lhs == rhs, "fft.functional", "sum_i fft(c)[i] r^i != sum_j c_j h^j (r^n-1)/(r g^j-1) at r={}; {}", r, ctx);
    // (ii) sampled positions
    let pos = sample_positions(t, size);
    o.evals(size as u64 + pos.len() as u64);
    for i in pos {
        let x = h * g.pow([i as u64]);
        let want = horner(&c, &x);
        ensure!(got[i] == want, "fft", "fft(c)[{}] = {} expected {} (Horner at h*g^{}); {}", i, got[i], want, i, ctx);
    }
    let mut v = c.clone();
    no_panic("fft_in_place", || d.fft_in_place(&mut v))?;
    ensure_vec_eq!(v, got, "fft_in_place", ctx);
    let mut padded = c.clone();
    padded.resize(size, F::zero());
    let back = no_panic("ifft", || d.ifft(&got))?;
    ensure_vec_eq!(back, padded, "ifft.roundtrip", ctx);
    no_panic("ifft_in_place", || d.ifft_in_place(&mut v))?;
    ensure_vec_eq!(v, padded, "ifft_in_place.roundtrip", ctx);
    Ok(())
}

pub(crate) fn ifft_large_rel<F: PrimeField, D: DomKind<F>>(cfg: &LargeCfg, t: &mut Tape<'_>, o: &mut Obs) -> R {
    let (d, n, h, hc) = pick_large::<F, D>(cfg, t, o)?;
    let size = d.size();
    let (e, vc) = vector::<F>(t, size);
    let g = d.group_gen();
    o.show(|| format!("{} {}::new({}) size {} {} (h={}) {} evals={}", cfg.field, D::KIND.name(), n, size, hc, h, vc, short(&e)));
    o.nt(e.iter().any(|x| !x.is_zero()));
    o.class(vc);
    let ctx = format!("size {} {}", size, hc);
    let p = no_panic("ifft", || d.ifft(&e))?;
    ensure_eq!(p.len(), size, "ifft.len");
    let r = outside_subgroup::<F>(t, size);
    let lhs = horner(&e, &r);
    let rhs = functional_of_coeffs(&p, h, g, size, r);
    ensure!(lhs == rhs, "ifft.functional", "sum_i e[i] r^i != sum_j p_j h^j (r^n-1)/(r g^j-1) for p = ifft(e) at r={}; {}", r, ctx);
    let pos = sample_positions(t, size);
    o.evals(size as u64 + pos.len() as u64);
    for i in pos {
        let x = h * g.pow([i as u64]);
        let v = horner(&p, &x);
        ensure!(v == e[i], "ifft.interpolates", "ifft(e) evaluates to {} at h*g^{} but e[{}] = {}; {}", v, i, i, e[i], ctx);
    }
    let mut v = e.clone();
    no_panic("ifft_in_place", || d.ifft_in_place(&mut v))?;
    ensure_vec_eq!(v, p, "ifft_in_place", ctx);
    let f = no_panic("fft", || d.fft(&p))?;
    ensure_vec_eq!(f, e, "fft.of-ifft", ctx);
    Ok(())
}

/// elements, vanishing polynomial and Lagrange coefficients of a large domain: `elements()` against the chain h*g^i,
/// Z(tau) against the product over all elements, the Lagrange vector through three functionals that involve every entry
/// (sum_i L_i(tau) e_i^k = tau^k for k = 0, 1, n-1: interpolation of x^k is exact) and 8 entries by the product definition;
/// for tau in the domain the whole vector must be the unit vector
pub(crate) fn lagrange_large_rel<F: PrimeField, D: DomKind<F>>(cfg: &LargeCfg, t: &mut Tape<'_>, o: &mut Obs) -> R {
    let (d, n, h, hc) = pick_large::<F, D>(cfg, t, o)?;
    let size = d.size();
    let g = d.group_gen();
    let elems = chain(h, g, size);
    let (tau, tc, known) = match t.weighted(&[4, 3, 1, 1]) {
        0 => (stream_felt::<F>(t.u64(), 5), "tau=uniform", None),
        1 => {
            let i = t.idx(size);
            (elems[i], "tau=domain element", Some(i))
        },
        2 => (F::zero(), "tau=0", None),
        _ => (h, "tau=offset", Some(0)),
    };
    o.show(|| format!("{} {}::new({}) size {} {} (h={}) {} tau={}", cfg.field, D::KIND.name(), n, size, hc, h, tc, tau));
    o.nt(true);
    o.class(tc);
    o.evals(4 * size as u64);
    let got: Vec<F> = d.elements().collect();
    ensure_vec_eq!(got, elems, "elements", format!("size {} {}", size, hc));
    for _ in 0..4 {
        let i = t.idx(size);
        ensure!(d.element(i) == elems[i], "element", "element({}) of a size-{} domain", i, size);
    }
    let mut z = F::one();
    for e in &elems {
        z *= tau - e;
    }
    let zv = no_panic("evaluate_vanishing_polynomial", || d.evaluate_vanishing_polynomial(tau))?;
    ensure_eq!(zv, z, "evaluate_vanishing_polynomial", "size {} {} {}", size, hc, tc);
    ensure_eq!(d.vanishing_polynomial().evaluate(&tau), z, "vanishing_polynomial.evaluate", "size {} {} {}", size, hc, tc);
    let lag = no_panic("evaluate_all_lagrange_coefficients", || d.evaluate_all_lagrange_coefficients(tau))?;
    ensure_eq!(lag.len(), size, "lagrange.len");
    let in_domain = known.or_else(|| if z.is_zero() { elems.iter().position(|e| *e == tau) } else { None });
    o.class_if(in_domain.is_some(), "tau in the domain");
    if let Some(k) = in_domain {
        for (i, l) in lag.iter().enumerate() {
            let want = if i == k { F::one() } else { F::zero() };
            ensure!(*l == want, "lagrange", "tau = element {}: L_{} = {} expected {}; size {} {}", k, i, l, want, size, hc);
        }
        return Ok(());
    }
    let (mut s0, mut s1, mut sn) = (F::zero(), F::zero(), F::zero());
    for (l, e) in lag.iter().zip(&elems) {
        s0 += l;
        s1 += *l * e;
        sn += *l * e.pow([size as u64 - 1]);
    }
    ensure!(s0.is_one(), "lagrange.sum", "sum_i L_i(tau) = {} != 1; size {} {}", s0, size, hc);
    ensure!(s1 == tau, "lagrange.sum", "sum_i L_i(tau) e_i = {} != tau; size {} {}", s1, size, hc);
    ensure!(sn == tau.pow([size as u64 - 1]), "lagrange.sum", "sum_i L_i(tau) e_i^(n-1) != tau^(n-1); size {} {}", size, hc);
    for k in 0..8 {
        let i = match k {
            0 => 0,
            1 => size - 1,
            _ => t.idx(size),
        };
        let mut num = F::one();
        let mut den = F::one();
        for j in 0..size {
            if j != i {
                num *= tau - elems[j];
                den *= elems[i] - elems[j];
            }
        }
        let want = num * den.inverse().expect("distinct elements");
        ensure!(lag[i] == want, "lagrange", "L_{}({}) = {} expected {}; size {} {} {}", i, tau, lag[i], want, size, hc, tc);
    }
    Ok(())
}

pub(crate) fn large_rels<F: PrimeField, D: DomKind<F>>(out: &mut Vec<Rel>, field: &str, tier: Tier, lo: u64, hi_quick: u64, hi_thorough: u64, cases: u32) {
    let info = info_of::<F>();
    let sizes = lattice_sizes(D::KIND, &info, lo, tier.pick(hi_quick, hi_thorough));
    assert!(!sizes.is_empty(), "no large sizes for {} {}", field, D::KIND.name());
    let cfg = Arc::new(LargeCfg { field: field.to_string(), info, sizes });
    let q = tier.pick(cases, cases * 12);
    let c = cfg.clone();
    out.push(Rel::new(format!("fft-large/{}.{}", field, D::KIND.name()), q, 64, move |t, o| fft_large_rel::<F, D>(&c, t, o)).shrink_iters(40));
    let c = cfg.clone();
    out.push(Rel::new(format!("ifft-large/{}.{}", field, D::KIND.name()), (q / 2).max(4), 64, move |t, o| ifft_large_rel::<F, D>(&c, t, o)).shrink_iters(40));
    let c = cfg.clone();
    out.push(Rel::new(format!("lagrange-large/{}.{}", field, D::KIND.name()), (q / 3).max(4), 32, move |t, o| lagrange_large_rel::<F, D>(&c, t, o)).shrink_iters(40));
}
