//! C07, the remaining public entry points of `EvaluationDomain` (trait-provided defaults and serialization) that
//! the transform relations never call:
//!  * `ifft` of an evaluation vector shorter than the domain (the code pads with zeros): the result interpolates e‖0;
//!  * `mul_polynomials_in_evaluation_domain` = pointwise product;
//!  * `reindex_by_subdomain` against its documentation ("an index which assumes the first elements of this domain are
//!    the elements of another (sub)domain" -> "the actual index into this domain");
//!    (`filter_polynomial` / `evaluate_filter_polynomial` are outside the statement of C07 and are not asserted; see
//!    NOTES.md, "Observations");
//!  * CanonicalSerialize / CanonicalDeserialize of the domain (derived for radix-2 / mixed, hand-written tag for
//!    `GeneralEvaluationDomain`): size, round trip in both modes, through the `*_with_mode` and the convenience spellings.
use super::*;
use ark_serialize::{Compress, Validate};

pub(crate) fn aux_rel<F: PrimeField, D: DomKind<F>>(cfg: &Cfg, t: &mut Tape<'_>, o: &mut Obs) -> R {
    let (d0, d, n, h, hc) = pick_domain::<F, D>(cfg, &cfg.table_small, t, o)?;
    let size = d.size();
    let g = d0.group_gen();
    let elems = chain(h, g, size);
    // ---- ifft of a short vector --------------------------------------------------------------------------
    let len = match t.weighted(&[2, 1, 2, 1]) {
        0 => t.below(size as u64 + 1) as usize,
        1 => 0,
        2 => size.saturating_sub(1),
        _ => size / 2,
    };
    let (e, vc) = vector::<F>(t, len);
    o.show(|| format!("{} {}::new({}) size {} {} (h={}) short evals (len {} {}) {}", cfg.field, D::KIND.name(), n, size, hc, h, len, vc, short(&e)));
    o.nt(size >= 4);
    o.class_if(len < size, "ifft of a short vector");
    o.evals(2 * size as u64 + 8);
    let p = no_panic("ifft", || d.ifft(&e))?;
    ensure_eq!(p.len(), size, "ifft.short.len");
    for (i, x) in elems.iter().enumerate() {
        let want = if i < len { e[i] } else { F::zero() };
        ensure!(horner(&p, x) == want, "ifft.short", "ifft of {} of {} evaluations: value at element {} is {} expected {}", len, size, i, horner(&p, x), want);
    }
    let mut v = e.clone();
    no_panic("ifft_in_place", || d.ifft_in_place(&mut v))?;
    ensure_vec_eq!(v, p, "ifft_in_place.short", format!("size {} len {}", size, len));
    // ---- mul_polynomials_in_evaluation_domain ----------------------------------------------------------
    let (a, _) = vector::<F>(t, size);
    let (b, _) = vector::<F>(t, size);
    let prod = no_panic("mul_polynomials_in_evaluation_domain", || d.mul_polynomials_in_evaluation_domain(&a, &b))?;
    let want: Vec<F> = a.iter().zip(&b).map(|(x, y)| *x * y).collect();
    ensure_vec_eq!(prod, want, "mul_polynomials_in_evaluation_domain", format!("size {}", size));
    // ---- serialization -----------------------------------------------------------------------------------
    for (mode, mc) in [(Compress::Yes, "compressed"), (Compress::No, "uncompressed")] {
        let mut bytes = Vec::new();
        d.serialize_with_mode(&mut bytes, mode).map_err(|e| vh_core::Fail { sig: "serialize".into(), msg: format!("serialize_with_mode({}) failed: {:?}", mc, e) })?;
        ensure_eq!(d.serialized_size(mode), bytes.len(), "serialized_size", "{}", mc);
        let back = D::deserialize_with_mode(&bytes[..], mode, Validate::Yes);
        ensure!(matches!(&back, Ok(x) if *x == d), "deserialize.roundtrip", "{} round trip of a {} domain of size {} {}: {:?}", mc, D::KIND.name(), size, hc, back.map(|x| x.size()));
        let mut b2 = Vec::new();
        let back2 = match mode {
            Compress::Yes => {
                d.serialize_compressed(&mut b2).ok();
                D::deserialize_compressed(&bytes[..])
            },
            Compress::No => {
                d.serialize_uncompressed(&mut b2).ok();
                D::deserialize_uncompressed(&bytes[..])
            },
        };
        ensure!(b2 == bytes, "serialize.spelling", "serialize_{} differs from serialize_with_mode", mc);
        ensure!(matches!(&back2, Ok(x) if *x == d), "deserialize.spelling", "deserialize_{} of a {} domain of size {}", mc, D::KIND.name(), size);
    }
    Ok(())
}

/// `reindex_by_subdomain`: self = subgroup domain G of size N, other = the subgroup domain S of size m | N. Documented:
/// "Given an index which assumes the first elements of this domain are the elements of another (sub)domain, this returns
/// the actual index into this domain" - i.e. `element(reindex(i))` is number i of the list (elements of S in S's order,
/// then the remaining elements of G in G's order). Element access by definition.
pub(crate) fn subdomain_rel<F: PrimeField, D: DomKind<F>>(cfg: &Cfg, t: &mut Tape<'_>, o: &mut Obs) -> R {
    let cands: Vec<(u64, u64, u64)> = cfg.table_small.iter().copied().collect();
    let (size, _lo, hi) = cands[t.idx(cands.len())];
    let dg = match no_panic("new", || D::new(hi as usize))? {
        Some(d) => d,
        None => return vh_core::fail("new.none", format!("{}::new({}) = None", D::KIND.name(), hi)),
    };
    ensure_eq!(dg.size() as u64, size, "new.size");
    let divs: Vec<u64> = (1..=size).filter(|m| size % m == 0 && expected_size(D::KIND, &cfg.info, *m) == Some(*m)).collect();
    let m = divs[t.idx(divs.len())];
    let s0 = match no_panic("new", || D::new(m as usize))? {
        Some(d) => d,
        None => return vh_core::fail("new.none", format!("{}::new({}) = None", D::KIND.name(), m)),
    };
    ensure_eq!(s0.size() as u64, m, "new.size");
    o.show(|| format!("{} {} domain of size {} re-indexed by its subdomain of size {}", cfg.field, D::KIND.name(), size, m));
    o.nt(size >= 4 && m >= 2 && m < size);
    o.class_if(m == size, "subdomain = domain");
    o.class_if(m == 1, "subdomain of size 1");
    o.class_if(size / m == 2, "subdomain of index 2");
    o.evals(size);
    let all = chain(F::one(), dg.group_gen(), size as usize);
    let s0_el = chain(F::one(), s0.group_gen(), m as usize);
    // the documented precondition, checked on the generated case itself
    assert!(s0_el.iter().all(|x| all.contains(x)), "generator: the subdomain must lie inside the domain");
    let mut order: Vec<F> = s0_el.clone();
    order.extend(all.iter().filter(|x| !s0_el.contains(x)).copied());
    let mut seen = vec![false; size as usize];
    for (i, want) in order.iter().enumerate() {
        let k = no_panic("reindex_by_subdomain", || dg.reindex_by_subdomain(s0, i))?;
        ensure!(k < size as usize && all[k] == *want && dg.element(k) == *want, "reindex_by_subdomain", "reindex_by_subdomain(size {}, {}) = {} in a domain of size {}: that element is not number {} of (subdomain elements, then the others)", m, i, k, size, i);
        ensure!(!seen[k], "reindex_by_subdomain.bijective", "index {} returned twice", k);
        seen[k] = true;
    }
    Ok(())
}
