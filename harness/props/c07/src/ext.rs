//! C07 over extension fields: `FftField` is also implemented for the quadratic and cubic templates (roots of
//! unity embedded from the base field), and evaluation domains can be built over them. These relations are
//! generic over `F: FftField` only (no PrimeField), with oracles written over `Field` operations:
//! exact orders by repeated powering, Horner evaluation, brute-force minimal sizes from the declared constants.
use ark_ff::{FftField, Field, One, Zero};
use ark_poly::domain::{EvaluationDomain, GeneralEvaluationDomain, MixedRadixEvaluationDomain, Radix2EvaluationDomain};
use vh_core::engine::{Obs, Rel, Tape, Tier, R};
use vh_core::{ensure, ensure_eq};

fn prime_factors(mut n: u64) -> Vec<u64> {
    let mut out = Vec::new();
    let mut d = 2;
    while d * d <= n {
        if n % d == 0 {
            out.push(d);
            while n % d == 0 {
                n /= d;
            }
        }
        d += 1;
    }
    if n > 1 {
        out.push(n);
    }
    out
}

/// x has multiplicative order exactly n
fn exact_order<F: Field>(x: &F, n: u64) -> bool {
    if !x.pow([n]).is_one() {
        return false;
    }
    prime_factors(n).iter().all(|l| !x.pow([n / l]).is_one())
}

fn in_lattice<F: FftField>(n: u64) -> bool {
    if n == 0 {
        return false;
    }
    let mut m = n;
    let mut a = 0;
    while m % 2 == 0 {
        m /= 2;
        a += 1;
    }
    if a > F::TWO_ADICITY {
        return false;
    }
    match (F::SMALL_SUBGROUP_BASE, F::SMALL_SUBGROUP_BASE_ADICITY, F::LARGE_SUBGROUP_ROOT_OF_UNITY) {
        (Some(q), Some(k), Some(_)) => {
            let q = q as u64;
            let mut b = 0;
            while m % q == 0 {
                m /= q;
                b += 1;
            }
            m == 1 && b <= k
        },
        _ => m == 1,
    }
}

/// smallest lattice element >= n (lattice restricted to powers of two when `mixed` is false)
fn minimal_size<F: FftField>(n: u64, mixed: bool) -> Option<u64> {
    let two_max = 1u64 << F::TWO_ADICITY.min(40);
    let (q, k) = match (mixed, F::SMALL_SUBGROUP_BASE, F::SMALL_SUBGROUP_BASE_ADICITY, F::LARGE_SUBGROUP_ROOT_OF_UNITY) {
        (true, Some(q), Some(k), Some(_)) => (q as u64, k),
        _ => (1, 0),
    };
    let mut best: Option<u64> = None;
    let mut qp = 1u64;
    for _ in 0..=k {
        let mut tp = 1u64;
        while tp <= two_max {
            let s = tp.saturating_mul(qp);
            if s >= n.max(1) && best.map_or(true, |b| s < b) {
                best = Some(s);
            }
            tp *= 2;
        }
        if q == 1 {
            break;
        }
        qp = qp.saturating_mul(q);
    }
    best
}

fn elem<F: FftField>(t: &mut Tape<'_>) -> F {
    use ark_ff::PrimeField;
    match t.below(6) {
        0 => F::zero(),
        1 => F::one(),
        _ => {
            let d = F::extension_degree() as usize;
            let coords: Vec<F::BasePrimeField> =
                (0..d).map(|_| if t.chance(1, 4) { F::BasePrimeField::zero() } else { F::BasePrimeField::from_le_bytes_mod_order(&t.bytes(104)) }).collect();
            F::from_base_prime_field_elems(coords).expect("degree-many coordinates")
        },
    }
}

fn horner<F: Field>(c: &[F], x: &F) -> F {
    let mut acc = F::zero();
    for a in c.iter().rev() {
        acc = acc * x + a;
    }
    acc
}

fn root_rel<F: FftField>(name: &str, t: &mut Tape<'_>, o: &mut Obs) -> R {
    // n from the lattice, its neighbourhood, and arbitrary small integers
    let q = F::SMALL_SUBGROUP_BASE.unwrap_or(1) as u64;
    let k = F::SMALL_SUBGROUP_BASE_ADICITY.unwrap_or(0);
    let n = match t.weighted(&[5, 2, 3]) {
        0 => {
            let a = t.below(F::TWO_ADICITY.min(20) as u64 + 2);
            let b = t.below(k as u64 + 2);
            (1u64 << a).saturating_mul(q.saturating_pow(b as u32))
        },
        1 => t.below(200),
        _ => {
            let a = t.below(F::TWO_ADICITY.min(12) as u64 + 1);
            (1u64 << a) * [3u64, 5, 7, 9, 25, 49][t.idx(6)]
        },
    };
    o.show(|| format!("{}: get_root_of_unity({})", name, n));
    o.nt(n > 2);
    o.class_if(in_lattice::<F>(n), "in-lattice");
    o.class_if(n % q == 0 && q > 1, "divisible-by-small-base");
    match F::get_root_of_unity(n) {
        Some(w) => {
            ensure!(in_lattice::<F>(n), "root.some-outside-lattice", "get_root_of_unity({}) = Some although no subgroup of that order is declared", n);
            ensure!(exact_order(&w, n), "root.order", "get_root_of_unity({}) does not have order exactly {}", n, n);
        },
        None => ensure!(!in_lattice::<F>(n), "root.none-in-lattice", "get_root_of_unity({}) = None although the declared constants provide that subgroup", n),
    }
    Ok(())
}

fn consts_rel<F: FftField>(name: &str, _t: &mut Tape<'_>, o: &mut Obs) -> R {
    o.show(|| format!("{}: declared FftField constants", name));
    o.nt(true);
    let s = F::TWO_ADICITY;
    ensure!(s < 63, "consts.two_adicity", "TWO_ADICITY {}", s);
    ensure!(exact_order(&F::TWO_ADIC_ROOT_OF_UNITY, 1u64 << s), "consts.two_adic_root.order", "TWO_ADIC_ROOT_OF_UNITY does not have order 2^{}", s);
    match (F::SMALL_SUBGROUP_BASE, F::SMALL_SUBGROUP_BASE_ADICITY, F::LARGE_SUBGROUP_ROOT_OF_UNITY) {
        (Some(q), Some(k), Some(w)) => {
            let n = (1u64 << s) * (q as u64).pow(k);
            ensure!(exact_order(&w, n), "consts.large_subgroup_root.order", "LARGE_SUBGROUP_ROOT_OF_UNITY does not have order 2^{}*{}^{}", s, q, k);
        },
        (None, None, None) => {},
        _ => ensure!(false, "consts.small_subgroup.partial", "small-subgroup constants only partly declared"),
    }
    Ok(())
}

/// `general`: GeneralEvaluationDomain prefers a radix-2 domain whenever one of sufficient size exists and only then
/// falls back to the mixed-radix kind (minimal *for its kind*, as the property says)
fn domain_rel<F: FftField, D: EvaluationDomain<F>>(name: &str, mixed: bool, general: bool, max: u64, t: &mut Tape<'_>, o: &mut Obs) -> R {
    let req = match t.weighted(&[3, 2]) {
        0 => t.below(max + 1),
        _ => {
            let q = F::SMALL_SUBGROUP_BASE.unwrap_or(2) as u64;
            let v = q.pow(t.below(3) as u32) * (1 << t.below(4));
            v.min(max)
        },
    } as usize;
    let want = if general { minimal_size::<F>(req as u64, false).or_else(|| minimal_size::<F>(req as u64, true)) } else { minimal_size::<F>(req as u64, mixed) };
    o.show(|| format!("{}: new({}) expected size {:?}", name, req, want));
    let d = match (D::new(req), want) {
        (None, None) => return Ok(()),
        (Some(d), Some(w)) => {
            ensure_eq!(d.size() as u64, w, "domain.size");
            d
        },
        (Some(d), None) => return vh_core::fail("domain.some", format!("new({}) gave size {} but no such subgroup is declared", req, d.size())),
        (None, Some(w)) => return vh_core::fail("domain.none", format!("new({}) = None but size {} is constructible", req, w)),
    };
    let d = if t.bool() { d.get_coset(F::GENERATOR).unwrap_or(d) } else { d };
    let n = d.size();
    o.nt(n >= 4);
    o.class_if(mixed && F::SMALL_SUBGROUP_BASE.map_or(false, |q| n as u64 % q as u64 == 0), "size-divisible-by-small-base");
    ensure!(exact_order(&d.group_gen(), n as u64), "domain.group_gen.order", "group_gen of the size-{} domain does not have order {}", n, n);
    let els: Vec<F> = d.elements().collect();
    let mut cur = d.coset_offset();
    for (i, e) in els.iter().enumerate() {
        ensure!(*e == cur && d.element(i) == cur, "domain.elements", "element {} of the size-{} domain", i, n);
        cur *= d.group_gen();
    }
    let len = t.below(n as u64 + 1) as usize;
    let c: Vec<F> = (0..len).map(|_| elem::<F>(t)).collect();
    let ev = d.fft(&c);
    o.evals(n as u64);
    for (i, e) in els.iter().enumerate() {
        ensure!(ev[i] == horner(&c, e), "fft.horner", "fft output {} of a size-{} domain (input length {})", i, n, len);
    }
    let back = d.ifft(&ev);
    let mut padded = c.clone();
    padded.resize(n, F::zero());
    ensure!(back == padded, "ifft.roundtrip", "ifft(fft(c)) != c on a size-{} domain", n);
    let tau = elem::<F>(t);
    let z: F = els.iter().map(|e| tau - e).product();
    ensure!(d.evaluate_vanishing_polynomial(tau) == z, "vanishing", "vanishing polynomial of the size-{} domain", n);
    Ok(())
}

pub fn field_rels<F: FftField>(out: &mut Vec<Rel>, name: &'static str, tier: Tier, max: u64) {
    let q = |n: u32| tier.pick(n, n * 15);
    out.push(Rel::new(format!("ext.consts/{}", name), 0, 1, move |t, o| consts_rel::<F>(name, t, o)).exhaustive(|| Box::new(std::iter::once(vec![0]))));
    out.push(Rel::new(format!("ext.root-of-unity/{}", name), q(300), 6, move |t, o| root_rel::<F>(name, t, o)));
    out.push(Rel::new(format!("ext.radix2/{}", name), q(40), 16 * 130, move |t, o| domain_rel::<F, Radix2EvaluationDomain<F>>(name, false, false, max, t, o)).shrink_iters(300));
    out.push(Rel::new(format!("ext.general/{}", name), q(60), 16 * 130, move |t, o| domain_rel::<F, GeneralEvaluationDomain<F>>(name, true, true, max, t, o)).shrink_iters(300));
    if F::LARGE_SUBGROUP_ROOT_OF_UNITY.is_some() {
        out.push(Rel::new(format!("ext.mixed/{}", name), q(60), 16 * 130, move |t, o| domain_rel::<F, MixedRadixEvaluationDomain<F>>(name, true, false, max, t, o)).shrink_iters(300));
    }
}
