//! C07 — FFT/IFFT over every evaluation domain equal naive evaluation/interpolation; domain construction,
//! elements, vanishing polynomial and Lagrange coefficients agree with their definitions.
use ark_ff::{FftField, Field, One, PrimeField, Zero};
use ark_poly::univariate::DensePolynomial;
use ark_poly::{
    EvaluationDomain, Evaluations, GeneralEvaluationDomain, MixedRadixEvaluationDomain, Polynomial,
    Radix2EvaluationDomain,
};
use ark_std::rand::SeedableRng;
use num_bigint::BigUint;
use std::sync::Arc;
use vh_core::engine::{no_panic, Obs, PropSpec, Rel, Tape, Tier, R};
use vh_core::{ensure, ensure_eq};

mod ext;

// ---------------------------------------------------------------------------------------------------------
// kinds of domain and the brute-force size oracle
// ---------------------------------------------------------------------------------------------------------

#[derive(Clone, Copy, PartialEq, Eq, Debug)]
enum Kind {
    Radix2,
    Mixed,
    General,
}

impl Kind {
    fn name(self) -> &'static str {
        match self {
            Kind::Radix2 => "radix2",
            Kind::Mixed => "mixed",
            Kind::General => "general",
        }
    }
}

trait DomKind<F: FftField>: EvaluationDomain<F> + Send + Sync + 'static {
    const KIND: Kind;
    /// true when the value is (a wrapper of) a radix-2 domain
    fn is_radix2(&self) -> bool;
}
impl<F: FftField> DomKind<F> for Radix2EvaluationDomain<F> {
    const KIND: Kind = Kind::Radix2;
    fn is_radix2(&self) -> bool {
        true
    }
}
impl<F: FftField> DomKind<F> for MixedRadixEvaluationDomain<F> {
    const KIND: Kind = Kind::Mixed;
    fn is_radix2(&self) -> bool {
        false
    }
}
impl<F: FftField> DomKind<F> for GeneralEvaluationDomain<F> {
    const KIND: Kind = Kind::General;
    fn is_radix2(&self) -> bool {
        matches!(self, GeneralEvaluationDomain::Radix2(_))
    }
}

/// Subgroup structure of the field: s = v2(p-1) computed from the modulus; (q, k) as declared by the configuration.
#[derive(Clone, Copy, Debug)]
struct Info {
    s: u32,
    q: Option<u64>,
    k: u32,
}

fn modulus_of<F: PrimeField>() -> BigUint {
    F::MODULUS.into()
}

fn info_of<F: PrimeField>() -> Info {
    let pm1 = modulus_of::<F>() - 1u32;
    let s = pm1.trailing_zeros().unwrap_or(0) as u32;
    Info { s, q: F::SMALL_SUBGROUP_BASE.map(u64::from), k: F::SMALL_SUBGROUP_BASE_ADICITY.unwrap_or(0) }
}

/// smallest 2^a >= n with a <= s
fn best_radix2(info: &Info, n: u64) -> Option<u64> {
    let mut best: Option<u128> = None;
    for a in 0..=info.s.min(100) {
        let x = 1u128 << a;
        if x >= n as u128 && best.map_or(true, |b| x < b) {
            best = Some(x);
        }
    }
    best.and_then(|b| u64::try_from(b).ok())
}

/// smallest 2^a * q^b >= n with a <= s, b <= k (all pairs enumerated)
fn best_mixed(info: &Info, n: u64) -> Option<u64> {
    let q = info.q? as u128;
    let mut best: Option<u128> = None;
    let mut qb = 1u128;
    for b in 0..=info.k {
        if b > 0 {
            qb = qb.checked_mul(q)?;
        }
        for a in 0..=info.s.min(64) {
            let x = match qb.checked_mul(1u128 << a) {
                Some(x) => x,
                None => break,
            };
            if x >= n as u128 && best.map_or(true, |bb| x < bb) {
                best = Some(x);
            }
        }
    }
    best.and_then(|b| u64::try_from(b).ok())
}

fn expected_size(kind: Kind, info: &Info, n: u64) -> Option<u64> {
    match kind {
        Kind::Radix2 => best_radix2(info, n),
        Kind::Mixed => best_mixed(info, n),
        // documented: "tries to build a radix-2 domain and falls back to a mixed-radix domain if the radix-2
        // multiplicative subgroup is too small"
        Kind::General => best_radix2(info, n).or_else(|| best_mixed(info, n)),
    }
}

/// prime divisors of a domain size (sizes are 2^a q^b with q prime)
fn prime_divisors(info: &Info, size: u64) -> Vec<u64> {
    let mut v = Vec::new();
    if size % 2 == 0 {
        v.push(2);
    }
    if let Some(q) = info.q {
        if q != 2 && size % q == 0 {
            v.push(q);
        }
    }
    v
}

/// (size, lowest n, highest n) for all sizes reachable with n <= max
fn size_table(kind: Kind, info: &Info, max: u64) -> Vec<(u64, u64, u64)> {
    let mut out: Vec<(u64, u64, u64)> = Vec::new();
    for n in 0..=max {
        match expected_size(kind, info, n) {
            Some(s) if s <= max => match out.last_mut() {
                Some(l) if l.0 == s => l.2 = n,
                _ => out.push((s, n, n)),
            },
            _ => break,
        }
    }
    out
}

// ---------------------------------------------------------------------------------------------------------
// generators
// ---------------------------------------------------------------------------------------------------------

fn mix(x: u64) -> u64 {
    let mut z = x.wrapping_add(0x9e3779b97f4a7c15);
    z = (z ^ (z >> 30)).wrapping_mul(0xbf58476d1ce4e5b9);
    z = (z ^ (z >> 27)).wrapping_mul(0x94d049bb133111eb);
    z ^ (z >> 31)
}

/// field element number `i` of the stream expanded from the tape word `seed` (pure function of the tape)
fn stream_felt<F: PrimeField>(seed: u64, i: u64) -> F {
    let nb = (F::MODULUS_BIT_SIZE as usize + 7) / 8 + 8;
    let mut bytes = Vec::with_capacity(nb + 8);
    let mut x = mix(seed ^ mix(i.wrapping_mul(0xa24baed4963ee407)));
    while bytes.len() < nb {
        x = mix(x);
        bytes.extend_from_slice(&x.to_le_bytes());
    }
    bytes.truncate(nb);
    F::from_le_bytes_mod_order(&bytes)
}

/// edge-biased field element decoded from the tape
fn felt<F: PrimeField>(t: &mut Tape<'_>) -> F {
    match t.weighted(&[2, 2, 2, 3, 6]) {
        0 => F::zero(),
        1 => F::one(),
        2 => -F::one(),
        3 => F::from(t.below(16)),
        _ => {
            let s = t.u64();
            stream_felt::<F>(s, 0)
        },
    }
}

fn felt_nonzero<F: PrimeField>(t: &mut Tape<'_>) -> F {
    let x = felt::<F>(t);
    if x.is_zero() {
        F::from(2u64)
    } else {
        x
    }
}

/// vector of `len` field elements: a mode, a stream seed, and up to 6 tape-decoded edge values in front
fn vector<F: PrimeField>(t: &mut Tape<'_>, len: usize) -> (Vec<F>, &'static str) {
    let mode = t.weighted(&[5, 3, 2, 1, 2]);
    let seed = t.u64();
    let mut v: Vec<F> = Vec::with_capacity(len);
    let name = match mode {
        0 => {
            for i in 0..len {
                v.push(stream_felt::<F>(seed, i as u64));
            }
            "vec=uniform"
        },
        1 => {
            for i in 0..len {
                let z = mix(seed ^ (i as u64).wrapping_mul(0x51ed27)) & 1 == 0;
                v.push(if z { F::zero() } else { stream_felt::<F>(seed, i as u64) });
            }
            "vec=half-zero"
        },
        2 => {
            v.resize(len, F::zero());
            if len > 0 {
                let j = if t.bool() { len - 1 } else { t.idx(len) };
                v[j] = F::one();
            }
            "vec=monomial"
        },
        3 => {
            v.resize(len, F::one());
            "vec=ones"
        },
        _ => {
            for i in 0..len {
                let x = match mix(seed ^ (i as u64)) % 4 {
                    0 => F::zero(),
                    1 => F::one(),
                    2 => -F::one(),
                    _ => F::from(mix(seed.wrapping_add(i as u64)) % 7),
                };
                v.push(x);
            }
            "vec=small-values"
        },
    };
    if mode != 2 && t.bool() {
        for x in v.iter_mut().take(6) {
            *x = felt::<F>(t);
        }
    }
    (v, name)
}

fn horner<F: Field>(c: &[F], x: &F) -> F {
    let mut acc = F::zero();
    for a in c.iter().rev() {
        acc *= x;
        acc += a;
    }
    acc
}

/// h, h g, h g^2, ... by repeated multiplication
fn chain<F: Field>(h: F, g: F, n: usize) -> Vec<F> {
    let mut v = Vec::with_capacity(n);
    let mut x = h;
    for _ in 0..n {
        v.push(x);
        x *= g;
    }
    v
}

fn first_diff<F: PartialEq>(a: &[F], b: &[F]) -> Option<usize> {
    if a.len() != b.len() {
        return Some(a.len().min(b.len()));
    }
    (0..a.len()).find(|i| a[*i] != b[*i])
}

fn short<F: std::fmt::Display>(v: &[F]) -> String {
    let mut s = String::from("[");
    for (i, x) in v.iter().enumerate().take(6) {
        if i > 0 {
            s.push_str(", ");
        }
        s.push_str(&x.to_string());
    }
    if v.len() > 6 {
        s.push_str(&format!(", … ({} entries)", v.len()));
    }
    s.push(']');
    s
}

macro_rules! ensure_vec_eq {
    ($got:expr, $want:expr, $sig:expr, $ctx:expr) => {{
        let (g, w) = (&$got, &$want);
        if let Some(i) = first_diff(g, w) {
            return Err(vh_core::Fail {
                sig: ($sig).to_string(),
                msg: format!(
                    "{}: lengths {} / {}; first difference at index {}: got {} expected {}; {}",
                    $sig,
                    g.len(),
                    w.len(),
                    i,
                    g.get(i).map(|x| x.to_string()).unwrap_or("<none>".into()),
                    w.get(i).map(|x| x.to_string()).unwrap_or("<none>".into()),
                    $ctx
                ),
            });
        }
    }};
}

mod aux;
mod large;

struct Cfg {
    field: String,
    info: Info,
    /// sizes reachable by the fft relations: (size, n_lo, n_hi)
    table: Vec<(u64, u64, u64)>,
    /// sizes reachable by the O(n^2)-per-point relations (Lagrange)
    table_small: Vec<(u64, u64, u64)>,
    /// exhaustive bound of the construction relation
    bound: u64,
}

/// choose a constructible domain (through a requested size n that rounds up to it) and a coset of it
fn pick_domain<F: PrimeField, D: DomKind<F>>(
    cfg: &Cfg,
    table: &[(u64, u64, u64)],
    t: &mut Tape<'_>,
    o: &mut Obs,
) -> Result<(D, D, u64, F, &'static str), vh_core::Fail> {
    let (size, lo, hi) = table[t.idx(table.len())];
    let n = match t.weighted(&[3, 2, 2]) {
        0 => hi,
        1 => lo,
        _ => lo + t.below(hi - lo + 1),
    };
    let d0 = match no_panic("new", || D::new(n as usize))? {
        Some(d) => d,
        None => return Err(vh_core::Fail { sig: "new.none".into(), msg: format!("{}::new({}) = None, expected a domain of size {}", D::KIND.name(), n, size) }),
    };
    ensure_eq!(d0.size() as u64, size, "new.size", "{}::new({})", D::KIND.name(), n);
    let (h, hc, plain) = match t.weighted(&[3, 2, 2, 2]) {
        0 => (F::one(), "offset=1", t.bool()),
        1 => (F::GENERATOR, "offset=GENERATOR", false),
        2 => (felt_nonzero::<F>(t), "offset=tape", false),
        _ => {
            let j = if size > 1 { 1 + t.below(size - 1) } else { 0 };
            (d0.group_gen().pow([j]), "offset=in-subgroup", false)
        },
    };
    let mut h = h;
    let d = if plain {
        d0
    } else if t.chance(1, 5) {
        // construction history: the coset is taken from a domain that already is a coset (get_coset documents a subgroup
        // domain as its receiver, so nothing is assumed about which offset results: every oracle below uses the offset the
        // resulting domain reports, and the accessors of that domain must be consistent with each other)
        let mid = if t.bool() { F::GENERATOR } else { felt_nonzero::<F>(t) };
        let dm = match no_panic("get_coset", || d0.get_coset(mid))? {
            Some(d) => d,
            None => return Err(vh_core::Fail { sig: "get_coset.none".into(), msg: format!("get_coset({}) = None", mid) }),
        };
        let d = match no_panic("get_coset", || dm.get_coset(h))? {
            Some(d) => d,
            None => return Err(vh_core::Fail { sig: "get_coset.none".into(), msg: format!("get_coset({}) on a coset = None", h) }),
        };
        o.class("coset-of-a-coset");
        h = d.coset_offset();
        ensure!(d.coset_offset_inv() * h == F::one(), "recoset.offset_inv", "coset_offset_inv * coset_offset != 1 after get_coset on a coset");
        ensure!(d.coset_offset_pow_size() == h.pow([size]), "recoset.offset_pow_size", "coset_offset_pow_size != coset_offset^size after get_coset on a coset (offset {})", h);
        ensure!(d.size() as u64 == size && d.group_gen() == d0.group_gen(), "recoset.group", "get_coset on a coset changed the subgroup");
        d
    } else {
        match no_panic("get_coset", || d0.get_coset(h))? {
            Some(d) => d,
            None => return Err(vh_core::Fail { sig: "get_coset.none".into(), msg: format!("get_coset({}) = None", h) }),
        }
    };
    o.class(hc);
    o.class_if(!h.is_one(), "coset");
    o.class_if(size >= 256, "size>=256 (root compaction)");
    o.class_if(!d.is_radix2(), "mixed-radix implementation");
    if let Some(q) = cfg.info.q {
        o.class_if(size % q == 0, "mixed radix with b>=1");
        o.class_if(size % q == 0 && size % 2 == 0, "mixed radix with a>=1 and b>=1");
    }
    Ok((d0, d, n, h, hc))
}

// ---------------------------------------------------------------------------------------------------------
// relations
// ---------------------------------------------------------------------------------------------------------

/// `new(n)`, `compute_size_of_domain(n)`, generator order, inverses, elements
fn construct_rel<F: PrimeField, D: DomKind<F>>(cfg: &Cfg, t: &mut Tape<'_>, o: &mut Obs) -> R {
    let info = &cfg.info;
    let kind = D::KIND;
    let (n, nclass) = match t.below(4) {
        0 => (t.below(cfg.bound + 1), "n<=bound"),
        1 => {
            // around a lattice point 2^a q^b (also beyond the field's bounds)
            let a = t.below(info.s.min(40) as u64 + 3) as u32;
            let b = t.below(info.k as u64 + 2) as u32;
            let q = info.q.unwrap_or(3) as u128;
            let x = (1u128 << a).saturating_mul(q.pow(b)).min(1u128 << 61) as u64;
            let n = match t.below(3) {
                0 => x,
                1 => x.saturating_sub(1),
                _ => x + 1,
            };
            (n, "n~lattice")
        },
        2 => {
            let a = t.below(62);
            let x = 1u64 << a;
            let n = match t.below(3) {
                0 => x,
                1 => x - 1,
                _ => x + 1,
            };
            (n, "n~2^a")
        },
        _ => (t.u64() >> (2 + t.below(60)), "n=uniform-bits"),
    };
    o.class(nclass);
    let want = expected_size(kind, info, n);
    o.show(|| format!("{} {}::new({}) expected size {:?}", cfg.field, kind.name(), n, want));
    o.nt(n >= 2);
    o.class_if(want.is_none(), "construction fails");
    let got = no_panic("new", || D::new(n as usize))?;
    let csd = no_panic("compute_size_of_domain", || D::compute_size_of_domain(n as usize))?;
    ensure_eq!(csd.map(|x| x as u64), want, "compute_size_of_domain", "n={}", n);
    let d = match (got, want) {
        (None, None) => return Ok(()),
        (None, Some(w)) => return vh_core::fail("new.none", format!("{}::new({}) = None but a subgroup of size {} exists", kind.name(), n, w)),
        (Some(d), None) => return vh_core::fail("new.some", format!("{}::new({}) returned size {} but no such subgroup exists", kind.name(), n, d.size())),
        (Some(d), Some(w)) => {
            ensure!(d.size() as u64 >= n, "new.too-small", "size {} < requested {}", d.size(), n);
            ensure_eq!(d.size() as u64, w, "new.size", "{}::new({}) is not the minimal size of its kind", kind.name(), n);
            d
        },
    };
    let size = d.size() as u64;
    o.evals(10);
    if kind == Kind::General {
        ensure_eq!(d.is_radix2(), best_radix2(info, n).is_some(), "general.variant");
    }
    o.class_if(!d.is_radix2(), "mixed-radix implementation");
    let g = d.group_gen();
    ensure!(g.pow([size]).is_one(), "group_gen.order", "group_gen^{} != 1", size);
    for l in prime_divisors(info, size) {
        ensure!(!g.pow([size / l]).is_one(), "group_gen.order", "group_gen^({}/{}) = 1: order is smaller than the size", size, l);
    }
    ensure!((g * d.group_gen_inv()).is_one(), "group_gen_inv", "group_gen * group_gen_inv != 1");
    let sf = F::from(size);
    ensure_eq!(d.size_as_field_element(), sf, "size_as_field_element");
    ensure!((sf * d.size_inv()).is_one(), "size_inv", "size * size_inv != 1");
    if size.is_power_of_two() {
        ensure_eq!(d.log_size_of_group(), size.trailing_zeros() as u64, "log_size_of_group");
    }
    ensure!(d.coset_offset().is_one() && d.coset_offset_inv().is_one() && d.coset_offset_pow_size().is_one(), "new.offset", "a fresh domain must have offset 1");
    if size <= 2 * cfg.bound.max(64) {
        let want = chain(F::one(), g, size as usize);
        let got: Vec<F> = d.elements().collect();
        ensure_vec_eq!(got, want, "elements", format!("size {}", size));
        for (i, w) in want.iter().enumerate() {
            ensure!(d.element(i) == *w, "element", "element({}) = {} expected {}", i, d.element(i), w);
        }
        o.evals(2 * size);
    } else {
        // large domain: spot checks
        let i = t.below(size);
        let j = t.below(size);
        let (ei, ej) = (d.element(i as usize), d.element(j as usize));
        ensure!(ei * ej == d.element(((i as u128 + j as u128) % size as u128) as usize), "element", "element({})*element({}) != element(i+j mod size)", i, j);
        ensure!((d.element((size - 1) as usize) * g).is_one(), "element", "element(size-1)*g != 1");
        ensure!(d.element(0).is_one() && d.element(1) == g, "element", "element(0), element(1)");
        let mut it = d.elements();
        ensure!(it.next() == Some(F::one()) && it.next() == Some(g), "elements", "first two elements");
    }
    Ok(())
}

fn len_class(t: &mut Tape<'_>, size: usize) -> usize {
    let q = size / 4;
    match t.weighted(&[1, 1, 3, 2, 2, 1, 1, 1, 1, 3, 2]) {
        0 => 0,
        1 => 1.min(size),
        2 => size,
        3 => q,
        4 => (q + 1).min(size),
        5 => (size / 2).saturating_sub(1),
        6 => size / 2,
        7 => (size / 2 + 1).min(size),
        8 => size.saturating_sub(1),
        9 => t.below(size as u64 + 1) as usize,
        _ => t.below(q as u64 + 1) as usize,
    }
}

/// forward transform = Horner at every element; inverse transform returns the coefficients
fn fft_rel<F: PrimeField, D: DomKind<F>>(cfg: &Cfg, t: &mut Tape<'_>, o: &mut Obs) -> R {
    let (_d0, d, n, h, hc) = pick_domain::<F, D>(cfg, &cfg.table, t, o)?;
    let size = d.size();
    let len = len_class(t, size);
    let (c, vc) = vector::<F>(t, len);
    o.show(|| format!("{} {}::new({}) size {} {} (h={}) len {} {} c={}", cfg.field, D::KIND.name(), n, size, hc, h, len, vc, short(&c)));
    let nonzero = c.iter().any(|x| !x.is_zero());
    o.nt(size >= 4 && len >= 1 && nonzero);
    o.class(vc);
    let aware = d.is_radix2() && len * 4 <= size;
    o.class_if(aware, "degree-aware path");
    o.class_if(aware && len >= 2, "degree-aware path, len>=2");
    o.class_if(d.is_radix2() && len * 4 > size && len < size, "full path, padded");
    o.class_if(len == size, "len=size");
    o.class_if(len == 0, "len=0");
    let ctx = format!("size {} {} len {}", size, hc, len);
    let elems = chain(h, d.group_gen(), size);
    let want: Vec<F> = elems.iter().map(|x| horner(&c, x)).collect();
    o.evals(size as u64 + 4);
    let got = no_panic("fft", || d.fft(&c))?;
    ensure_vec_eq!(got, want, "fft", ctx);
    let mut v = c.clone();
    no_panic("fft_in_place", || d.fft_in_place(&mut v))?;
    ensure_vec_eq!(v, want, "fft_in_place", ctx);
    let mut padded = c.clone();
    padded.resize(size, F::zero());
    let back = no_panic("ifft", || d.ifft(&got))?;
    ensure_vec_eq!(back, padded, "ifft.roundtrip", ctx);
    no_panic("ifft_in_place", || d.ifft_in_place(&mut v))?;
    ensure_vec_eq!(v, padded, "ifft_in_place.roundtrip", ctx);
    // distribute_powers: c_i * g^i, distribute_powers_and_mul_by_const: k * c_i * g^i
    let k = felt::<F>(t);
    let mut hp = F::one();
    let mut want_dp = Vec::with_capacity(len);
    for x in &c {
        want_dp.push(*x * hp);
        hp *= h;
    }
    let mut v = c.clone();
    no_panic("distribute_powers", || D::distribute_powers(&mut v, h))?;
    ensure_vec_eq!(v, want_dp, "distribute_powers", ctx);
    let mut v = c.clone();
    no_panic("distribute_powers_and_mul_by_const", || D::distribute_powers_and_mul_by_const(&mut v, h, k))?;
    let want_dpk: Vec<F> = want_dp.iter().map(|x| *x * k).collect();
    ensure_vec_eq!(v, want_dpk, "distribute_powers_and_mul_by_const", ctx);
    // Evaluations::interpolate
    let mut canon = c.clone();
    while canon.last().map_or(false, |x| x.is_zero()) {
        canon.pop();
    }
    let ev = Evaluations::from_vec_and_domain(got.clone(), d);
    let p = no_panic("interpolate_by_ref", || ev.interpolate_by_ref())?;
    ensure_vec_eq!(p.coeffs, canon, "interpolate_by_ref", ctx);
    let p = no_panic("interpolate", || ev.interpolate())?;
    ensure_vec_eq!(p.coeffs, canon, "interpolate", ctx);
    Ok(())
}

/// the inverse transform of arbitrary values interpolates them
fn ifft_rel<F: PrimeField, D: DomKind<F>>(cfg: &Cfg, t: &mut Tape<'_>, o: &mut Obs) -> R {
    let (_d0, d, n, h, hc) = pick_domain::<F, D>(cfg, &cfg.table, t, o)?;
    let size = d.size();
    let (e, vc) = vector::<F>(t, size);
    o.show(|| format!("{} {}::new({}) size {} {} (h={}) {} evals={}", cfg.field, D::KIND.name(), n, size, hc, h, vc, short(&e)));
    o.nt(size >= 4 && e.iter().any(|x| !x.is_zero()));
    o.class(vc);
    let ctx = format!("size {} {}", size, hc);
    let p = no_panic("ifft", || d.ifft(&e))?;
    ensure_eq!(p.len(), size, "ifft.len");
    let elems = chain(h, d.group_gen(), size);
    o.evals(size as u64 + 2);
    let vals: Vec<F> = elems.iter().map(|x| horner(&p, x)).collect();
    ensure_vec_eq!(vals, e, "ifft.interpolates", ctx);
    let mut v = e.clone();
    no_panic("ifft_in_place", || d.ifft_in_place(&mut v))?;
    ensure_vec_eq!(v, p, "ifft_in_place", ctx);
    let f = no_panic("fft", || d.fft(&p))?;
    ensure_vec_eq!(f, e, "fft.of-ifft", ctx);
    let q = no_panic("interpolate", || Evaluations::from_vec_and_domain(e.clone(), d).interpolate())?;
    let mut canon = p.clone();
    while canon.last().map_or(false, |x| x.is_zero()) {
        canon.pop();
    }
    ensure_vec_eq!(q.coeffs, canon, "interpolate", ctx);
    Ok(())
}

/// coset accessors, elements, vanishing polynomial, Lagrange coefficients against the product definitions
fn vanish_lagrange_rel<F: PrimeField, D: DomKind<F>>(cfg: &Cfg, t: &mut Tape<'_>, o: &mut Obs) -> R {
    let (d0, d, n, h, hc) = pick_domain::<F, D>(cfg, &cfg.table_small, t, o)?;
    let size = d.size();
    let g = d0.group_gen();
    let elems = chain(h, g, size);
    let (tau, tc) = match t.weighted(&[3, 1, 1, 4, 1, 2, 1]) {
        0 => (felt::<F>(t), "tau=tape"),
        1 => (F::zero(), "tau=0"),
        2 => (F::one(), "tau=1"),
        3 => (elems[t.idx(size)], "tau=domain element"),
        4 => (h, "tau=offset"),
        5 => (g.pow([t.below(size as u64)]), "tau=subgroup element"),
        _ => (-elems[t.idx(size)], "tau=-(domain element)"),
    };
    let pos = elems.iter().position(|x| *x == tau);
    o.show(|| format!("{} {}::new({}) size {} {} (h={}) {} tau={} (index in domain: {:?})", cfg.field, D::KIND.name(), n, size, hc, h, tc, tau, pos));
    o.nt(size >= 4);
    o.class(tc);
    o.class_if(pos.is_some(), "tau in the domain");
    o.class_if(pos.is_some() && !h.is_one(), "tau in a coset domain");
    o.evals(size as u64 + 12);
    // coset accessors
    ensure_eq!(d.size(), d0.size(), "coset.size");
    ensure_eq!(d.group_gen(), g, "coset.group_gen");
    ensure_eq!(d.group_gen_inv(), d0.group_gen_inv(), "coset.group_gen_inv");
    ensure_eq!(d.size_inv(), d0.size_inv(), "coset.size_inv");
    ensure_eq!(d.coset_offset(), h, "coset_offset");
    ensure!((d.coset_offset_inv() * h).is_one(), "coset_offset_inv", "offset * coset_offset_inv != 1 for offset {}", h);
    let mut hn = F::one();
    for _ in 0..size {
        hn *= h;
    }
    ensure_eq!(d.coset_offset_pow_size(), hn, "coset_offset_pow_size");
    ensure!(d0.get_coset(F::zero()).is_none(), "get_coset.zero", "get_coset(0) must fail: 0 has no inverse");
    let nc = no_panic("new_coset", || D::new_coset(n as usize, h))?;
    ensure!(nc == d0.get_coset(h), "new_coset", "new_coset(n, h) != new(n).get_coset(h)");
    // elements
    let got: Vec<F> = d.elements().collect();
    ensure_vec_eq!(got, elems, "coset.elements", format!("size {} {}", size, hc));
    for (i, w) in elems.iter().enumerate() {
        ensure!(d.element(i) == *w, "coset.element", "element({}) = {} expected {}", i, d.element(i), w);
    }
    // the iterator protocol on elements(): jumping ahead, skipping, striding, counting must visit the same elements
    {
        let k = t.below(size as u64 + 2) as usize;
        let mut it = d.elements();
        let got = it.nth(k);
        ensure!(got == elems.get(k).copied(), "elements.nth", "elements().nth({}) = {:?} expected {:?} (size {} {})", k, got, elems.get(k), size, hc);
        let nxt = it.next();
        ensure!(nxt == elems.get(k + 1).copied(), "elements.nth.then-next", "next() after nth({}) = {:?} expected {:?}", k, nxt, elems.get(k + 1));
        let sk: Vec<F> = d.elements().skip(k).collect();
        ensure_vec_eq!(sk, elems[k.min(elems.len())..].to_vec(), "elements.skip", format!("skip({}) size {} {}", k, size, hc));
        let st = 1 + t.below(5) as usize;
        let sv: Vec<F> = d.elements().step_by(st).collect();
        let want: Vec<F> = elems.iter().copied().step_by(st).collect();
        ensure_vec_eq!(sv, want, "elements.step_by", format!("step_by({}) size {} {}", st, size, hc));
        ensure!(d.elements().count() == elems.len(), "elements.count", "elements().count() != size");
        ensure!(d.elements().last() == elems.last().copied(), "elements.last", "elements().last() differs");
        let (lo, hi) = d.elements().size_hint();
        ensure!(lo <= elems.len() && hi.map_or(true, |h| h >= elems.len()), "elements.size_hint", "size_hint ({}, {:?}) excludes the true length {}", lo, hi, elems.len());
    }
    // vanishing polynomial
    let mut z = F::one();
    for e in &elems {
        z *= tau - e;
    }
    let zv = no_panic("evaluate_vanishing_polynomial", || d.evaluate_vanishing_polynomial(tau))?;
    ensure_eq!(zv, z, "evaluate_vanishing_polynomial", "size {} {} {}", size, hc, tc);
    let vp = no_panic("vanishing_polynomial", || d.vanishing_polynomial())?;
    ensure_eq!(vp.degree(), size, "vanishing_polynomial.degree");
    ensure_eq!(vp.evaluate(&tau), z, "vanishing_polynomial.evaluate", "size {} {} {}", size, hc, tc);
    let vd: DensePolynomial<F> = vp.into();
    ensure_eq!(horner(&vd.coeffs, &tau), z, "vanishing_polynomial.coeffs");
    // Lagrange coefficients: L_i(tau) = prod_{j != i} (tau - e_j) / (e_i - e_j)
    let lag = no_panic("evaluate_all_lagrange_coefficients", || d.evaluate_all_lagrange_coefficients(tau))?;
    ensure_eq!(lag.len(), size, "lagrange.len");
    for i in 0..size {
        let mut num = F::one();
        let mut den = F::one();
        for j in 0..size {
            if j != i {
                num *= tau - elems[j];
                den *= elems[i] - elems[j];
            }
        }
        let want = num * den.inverse().expect("domain elements are distinct");
        ensure!(lag[i] == want, "lagrange", "L_{}({}) = {} expected {}; size {} {} {}", i, tau, lag[i], want, size, hc, tc);
    }
    // an element outside the domain (rejection sampling inside arkworks; seeded from the tape)
    if (size as u64) < 64 || cfg.info.s > 8 || modulus_of::<F>() > BigUint::from(1u64 << 20) {
        let mut rng = ark_std::rand::rngs::StdRng::seed_from_u64(t.u64());
        let x = no_panic("sample_element_outside_domain", || d.sample_element_outside_domain(&mut rng))?;
        ensure!(!elems.contains(&x), "sample_element_outside_domain", "{} is in the domain", x);
    }
    Ok(())
}

/// `get_root_of_unity(n)`: exact order or None; the configured constants
fn root_rel<F: PrimeField>(cfg: &Cfg, t: &mut Tape<'_>, o: &mut Obs) -> R {
    let info = &cfg.info;
    let q = info.q;
    let n: u64 = match t.below(3) {
        0 => t.below(cfg.bound + 1),
        1 => {
            let a = t.below(info.s.min(50) as u64 + 3) as u32;
            let b = t.below(info.k as u64 + 3) as u32;
            let qq = q.unwrap_or(3) as u128;
            let x = (1u128 << a).saturating_mul(qq.pow(b));
            let x = match t.below(4) {
                0 => x.saturating_mul([3u128, 5, 7, 11][t.idx(4)]),
                _ => x,
            };
            x.min(1u128 << 61) as u64
        },
        _ => t.u64() >> (3 + t.below(59)),
    };
    // is n = 2^a q^b with a <= s, b <= k (b = 0 when no small subgroup is declared)?
    let mut m = n;
    let mut a = 0u32;
    let mut b = 0u32;
    if n > 0 {
        while m % 2 == 0 {
            m /= 2;
            a += 1;
        }
        if let Some(q) = q {
            while m % q == 0 {
                m /= q;
                b += 1;
            }
        }
    }
    let exists = n > 0 && m == 1 && a <= info.s && b <= info.k;
    o.show(|| format!("{} get_root_of_unity({}) [2^{} q^{} * {}] expected {}", cfg.field, n, a, b, m, if exists { "Some" } else { "None" }));
    o.nt(n >= 2);
    o.class_if(exists, "root exists");
    o.class_if(exists && b > 0, "root of mixed order");
    let r = no_panic("get_root_of_unity", || F::get_root_of_unity(n))?;
    match r {
        None => ensure!(!exists, "get_root_of_unity.none", "get_root_of_unity({}) = None but the field has a subgroup of that order", n),
        Some(w) => {
            ensure!(exists, "get_root_of_unity.some", "get_root_of_unity({}) = Some({}) but no subgroup of that order is declared", n, w);
            ensure!(w.pow([n]).is_one(), "get_root_of_unity.order", "w^{} != 1", n);
            for l in prime_divisors(info, n) {
                ensure!(!w.pow([n / l]).is_one(), "get_root_of_unity.order", "w^({}/{}) = 1", n, l);
            }
        },
    }
    // constants of the configuration
    ensure_eq!(F::TWO_ADICITY, info.s, "TWO_ADICITY");
    let w = F::TWO_ADIC_ROOT_OF_UNITY;
    let mut x = w;
    for _ in 1..info.s.max(1) {
        x.square_in_place();
    }
    if info.s >= 1 {
        ensure!(x == -F::one(), "TWO_ADIC_ROOT_OF_UNITY", "order is not exactly 2^s");
    } else {
        ensure!(w.is_one(), "TWO_ADIC_ROOT_OF_UNITY", "s = 0");
    }
    if let (Some(q), Some(l)) = (q, F::LARGE_SUBGROUP_ROOT_OF_UNITY) {
        let pm1 = modulus_of::<F>() - 1u32;
        let qk = BigUint::from(q).pow(info.k);
        ensure!((&pm1 % &qk).is_zero(), "SMALL_SUBGROUP", "q^k does not divide p-1");
        let ord = qk * (BigUint::one() << info.s as usize);
        let e = |d: u64| (&ord / BigUint::from(d)).to_u64_digits();
        ensure!(l.pow(ord.to_u64_digits()).is_one(), "LARGE_SUBGROUP_ROOT_OF_UNITY", "l^(2^s q^k) != 1");
        if info.s >= 1 {
            ensure!(!l.pow(e(2)).is_one(), "LARGE_SUBGROUP_ROOT_OF_UNITY", "order misses a factor 2");
        }
        if info.k >= 1 {
            ensure!(!l.pow(e(q)).is_one(), "LARGE_SUBGROUP_ROOT_OF_UNITY", "order misses a factor q");
        }
    }
    Ok(())
}

// ---------------------------------------------------------------------------------------------------------
// registration
// ---------------------------------------------------------------------------------------------------------

fn kind_rels<F: PrimeField, D: DomKind<F>>(out: &mut Vec<Rel>, field: &str, tier: Tier, max: u64, small: u64, bound: u64, weight: u32) {
    let info = info_of::<F>();
    let kind = D::KIND;
    let cfg = Arc::new(Cfg {
        field: field.to_string(),
        info,
        table: size_table(kind, &info, max),
        table_small: size_table(kind, &info, small),
        bound,
    });
    assert!(!cfg.table.is_empty());
    let nm = |r: &str| format!("{}/{}.{}", r, field, kind.name());
    let q = |n: u32| (tier.pick(n, n * 12) * weight / 4).max(20);
    let c = cfg.clone();
    let b = bound;
    out.push(
        Rel::new(nm("construct"), q(240), 12, move |t, o| construct_rel::<F, D>(&c, t, o))
            .exhaustive(move || Box::new((0..=b).map(|n| vec![0u64, n, n, n, 0, 0]))),
    );
    let c = cfg.clone();
    out.push(Rel::new(nm("fft"), q(320), 160, move |t, o| fft_rel::<F, D>(&c, t, o)).shrink_iters(600));
    let c = cfg.clone();
    out.push(Rel::new(nm("ifft"), q(160), 160, move |t, o| ifft_rel::<F, D>(&c, t, o)).shrink_iters(600));
    let c = cfg.clone();
    out.push(Rel::new(nm("vanish-lagrange"), q(200), 48, move |t, o| vanish_lagrange_rel::<F, D>(&c, t, o)).shrink_iters(600));
}

/// the remaining trait-provided entry points (short ifft, pointwise product, serialization; subdomain re-indexing),
/// see `aux.rs`
fn aux_rels<F: PrimeField, D: DomKind<F>>(out: &mut Vec<Rel>, field: &str, tier: Tier, small: u64) {
    let info = info_of::<F>();
    let kind = D::KIND;
    let cfg = Arc::new(Cfg { field: field.to_string(), info, table: vec![], table_small: size_table(kind, &info, small), bound: 0 });
    assert!(!cfg.table_small.is_empty());
    let c = cfg.clone();
    out.push(Rel::new(format!("aux/{}.{}", field, kind.name()), tier.pick(300, 4500), 96, move |t, o| aux::aux_rel::<F, D>(&c, t, o)).shrink_iters(400));
    let c = cfg.clone();
    out.push(Rel::new(format!("subdomain/{}.{}", field, kind.name()), tier.pick(240, 3600), 24, move |t, o| aux::subdomain_rel::<F, D>(&c, t, o)).shrink_iters(400));
}

fn root_rels<F: PrimeField>(out: &mut Vec<Rel>, field: &str, tier: Tier, bound: u64) {
    let info = info_of::<F>();
    let cfg = Arc::new(Cfg { field: field.to_string(), info, table: vec![], table_small: vec![], bound });
    let c = cfg.clone();
    let b = bound;
    out.push(
        Rel::new(format!("root-of-unity/{}", field), tier.pick(400, 4000), 8, move |t, o| root_rel::<F>(&c, t, o))
            .exhaustive(move || Box::new((0..=b).map(|n| vec![0u64, n]))),
    );
}

/// limits for a field: (largest size of the fft relations, of the Lagrange relation, exhaustive bound for new(n))
fn limits<F: PrimeField>(tier: Tier) -> (u64, u64, u64) {
    let limbs = (F::MODULUS_BIT_SIZE as u64 + 63) / 64;
    match limbs {
        1 => (tier.pick(1024, 8192), tier.pick(128, 512), tier.pick(1100, 8200)),
        2..=4 => (tier.pick(1024, 2048), tier.pick(128, 256), tier.pick(1100, 4100)),
        5..=6 => (tier.pick(512, 2048), tier.pick(64, 256), tier.pick(1100, 4100)),
        _ => (tier.pick(256, 1024), tier.pick(32, 128), tier.pick(600, 4100)),
    }
}

fn relations(tier: Tier) -> Vec<Rel> {
    let mut out = Vec::new();
    // fields without a declared small subgroup: MixedRadixEvaluationDomain is documented to work "only for fields that
    // have ... another small subgroup over a different base defined" and is not instantiated for them
    macro_rules! radix2_field {
        ($f:ty, $name:expr, $w:expr) => {{
            let (max, small, bound) = limits::<$f>(tier);
            kind_rels::<$f, Radix2EvaluationDomain<$f>>(&mut out, $name, tier, max, small, bound, $w);
            kind_rels::<$f, GeneralEvaluationDomain<$f>>(&mut out, $name, tier, max, small, bound, $w);
            root_rels::<$f>(&mut out, $name, tier, bound);
        }};
    }
    macro_rules! mixed_field {
        ($f:ty, $name:expr, $w:expr) => {{
            let (max, small, bound) = limits::<$f>(tier);
            kind_rels::<$f, Radix2EvaluationDomain<$f>>(&mut out, $name, tier, max, small, bound, $w);
            kind_rels::<$f, MixedRadixEvaluationDomain<$f>>(&mut out, $name, tier, max, small, bound, $w);
            kind_rels::<$f, GeneralEvaluationDomain<$f>>(&mut out, $name, tier, max, small, bound, $w);
            root_rels::<$f>(&mut out, $name, tier, bound);
        }};
    }
    use vh_core::zoo;
    mixed_field!(ark_test_curves::bls12_381::Fr, "test.bls12_381.Fr", 4);
    radix2_field!(zoo::Gold, "Gold", 4);
    radix2_field!(zoo::A5, "A5", 4);
    radix2_field!(zoo::A1, "A1", 2);
    radix2_field!(zoo::T17, "T17", 4);
    radix2_field!(zoo::T65537, "T65537", 4);
    mixed_field!(zoo::X3_2, "X3_2", 4);
    mixed_field!(zoo::X4_3, "X4_3", 4);
    mixed_field!(zoo::X5_1, "X5_1", 4);
    mixed_field!(zoo::X2_4, "X2_4", 4);
    mixed_field!(zoo::Y3_2, "Y3_2", 4);
    mixed_field!(ark_test_curves::bn384_small_two_adicity::Fq, "test.bn384.Fq", 3);
    mixed_field!(ark_test_curves::bn384_small_two_adicity::Fr, "test.bn384.Fr", 3);
    mixed_field!(ark_mnt4_298::Fq, "mnt4_298.Fq", 3);
    mixed_field!(ark_test_curves::mnt4_753::Fr, "test.mnt4_753.Fr", 2);
    mixed_field!(ark_secp256k1::Fq, "secp256k1.Fq", 2);
    mixed_field!(ark_secp256k1::Fr, "secp256k1.Fr", 3);
    mixed_field!(ark_curve25519::Fq, "curve25519.Fq", 2);
    mixed_field!(ark_bn254::Fr, "bn254.Fr", 3);
    mixed_field!(ark_bls12_381::Fq, "bls12_381.Fq", 2);
    // trait-provided defaults and serialization (aux.rs) on a selection of field shapes
    macro_rules! aux_field {
        ($f:ty, $name:expr, $small:expr; $($d:ident),+) => {{
            $( aux_rels::<$f, $d<$f>>(&mut out, $name, tier, $small); )+
        }};
    }
    aux_field!(ark_test_curves::bls12_381::Fr, "test.bls12_381.Fr", 96; Radix2EvaluationDomain, MixedRadixEvaluationDomain, GeneralEvaluationDomain);
    aux_field!(zoo::Gold, "Gold", 128; Radix2EvaluationDomain, GeneralEvaluationDomain);
    aux_field!(zoo::T17, "T17", 128; Radix2EvaluationDomain);
    aux_field!(zoo::X3_2, "X3_2", 128; MixedRadixEvaluationDomain, GeneralEvaluationDomain);
    aux_field!(zoo::Y3_2, "Y3_2", 256; MixedRadixEvaluationDomain);
    aux_field!(ark_mnt4_298::Fq, "mnt4_298.Fq", 100; MixedRadixEvaluationDomain);
    aux_field!(ark_test_curves::bn384_small_two_adicity::Fq, "test.bn384.Fq", 80; GeneralEvaluationDomain);
    // large domains (large.rs): above the 1024-entry switch of the radix-2 butterflies, mixed-radix sizes of that magnitude
    {
        use ark_test_curves::bls12_381::Fr;
        large::large_rels::<zoo::Gold, Radix2EvaluationDomain<zoo::Gold>>(&mut out, "Gold", tier, 2048, 1 << 16, 1 << 18, 40);
        large::large_rels::<zoo::Gold, GeneralEvaluationDomain<zoo::Gold>>(&mut out, "Gold", tier, 2048, 1 << 15, 1 << 17, 20);
        large::large_rels::<Fr, Radix2EvaluationDomain<Fr>>(&mut out, "test.bls12_381.Fr", tier, 2048, 1 << 14, 1 << 16, 24);
        large::large_rels::<Fr, GeneralEvaluationDomain<Fr>>(&mut out, "test.bls12_381.Fr", tier, 2048, 1 << 13, 1 << 15, 12);
        large::large_rels::<Fr, MixedRadixEvaluationDomain<Fr>>(&mut out, "test.bls12_381.Fr", tier, 1100, 3 << 11, 3 << 14, 24);
        type BnFq = ark_test_curves::bn384_small_two_adicity::Fq;
        large::large_rels::<BnFq, MixedRadixEvaluationDomain<BnFq>>(&mut out, "test.bn384.Fq", tier, 1100, 9 << 9, 9 << 12, 16);
        large::large_rels::<ark_mnt4_298::Fq, MixedRadixEvaluationDomain<ark_mnt4_298::Fq>>(&mut out, "mnt4_298.Fq", tier, 1100, 49 << 6, 49 << 9, 16);
    }
    // FftField is also implemented for the quadratic / cubic extension templates (roots embedded from the base field)
    ext::field_rels::<ark_test_curves::mnt6_753::Fq3>(&mut out, "test.mnt6_753.Fq3", tier, 60);
    ext::field_rels::<ark_mnt4_298::Fq2>(&mut out, "mnt4_298.Fq2", tier, 120);
    ext::field_rels::<ark_mnt6_298::Fq3>(&mut out, "mnt6_298.Fq3", tier, 120);
    ext::field_rels::<ark_bls12_381::Fq2>(&mut out, "bls12_381.Fq2", tier, 8);
    ext::field_rels::<ark_test_curves::bn384_small_two_adicity::Fq>(&mut out, "ext-generic.test.bn384.Fq", tier, 150);
    out
}

fn main() {
    vh_core::engine::main(PropSpec {
        id: "C07",
        rule: "A case is a domain kind (Radix2 / MixedRadix / General) over one of 20 prime fields and 4 extension fields (mnt6_753 Fq3, mnt4_298 Fq2, mnt6_298 Fq3, bls12_381 Fq2: FftField constants, get_root_of_unity, domains up to size 120 with fft vs Horner) (BLS12-381 Fr, Goldilocks, toy fields of two-adicity 1, 4, 5, 16, five toy mixed-radix fields whose whole {2^a q^b} lattice is walked, and the shipped fields that declare a small subgroup), a requested size n that rounds up to a constructible size (every n in 0..=bound is also enumerated for new(n)), a coset offset in {1, GENERATOR, tape-chosen, an element of the subgroup}, a coefficient/evaluation vector (uniform, half zero, monomial, all ones, small values, edge values in front) whose length is drawn around the degree-aware threshold (size/4, size/4+1), size/2±1, 0, 1, size-1, size, or an evaluation point (tape, 0, 1, a domain element, the offset, a subgroup element). Oracles: Horner evaluation at h·g^i (g^i by repeated multiplication), product definitions of the vanishing polynomial and of the Lagrange coefficients, brute-force minimal size over all (a,b), exact element order. Non-trivial: size >= 4 and 1 <= len <= size with a non-zero entry (transforms); size >= 4 (vanishing/Lagrange); n >= 2 (construction, roots). Large regime (own relations fft-large / ifft-large): radix-2 and general domains of size 2^11..2^16 over Goldilocks and 2^11..2^14 over BLS12-381 Fr (thorough 2^18 / 2^16), i.e. above the 1024-entry switch inside the radix-2 butterflies, and mixed-radix domains of size 1536..6144 (2^a 3^b over Fr), 1152..4608 (2^a 3^b over bn384 Fq), 1568..3136 (2^a 7^b over mnt4_298 Fq), pure powers of two included (they take the bit-reversal branch of the mixed-radix code), with the same offsets, input lengths around size/4, size/2, size-1, size, powers of two; oracle = a linear functional over all outputs, sum_i out[i] r^i = sum_j c_j h^j (r^n-1)/(r g^j-1) for a tape-chosen r outside the subgroup (a wrong output vector satisfies it for fewer than n values of r), plus Horner evaluation at 16 output positions, plus the exact round trip. Relation lagrange-large on the same domains: elements() against the chain h*g^i, Z(tau) against the product over all elements, evaluate_all_lagrange_coefficients(tau) through sum_i L_i(tau) e_i^k = tau^k for k = 0, 1, n-1 (every entry involved), 8 entries by the product definition, the whole unit vector for tau in the domain. Remaining entry points (relations aux / subdomain on 7 field shapes): ifft of an evaluation vector shorter than the domain interpolates e||0 (Horner at every element), mul_polynomials_in_evaluation_domain = pointwise product, CanonicalSerialize/Deserialize of the domain in both modes and both spellings (size, round trip), reindex_by_subdomain(subgroup of size m | N, i) for every i against the documented order (subdomain elements first, then the rest). distinct = distinct decoded choice sequences.",
        assumptions: &[
            "prime-field arithmetic (+, *, inverse, pow) is correct (C01)",
            "the declared SMALL_SUBGROUP_BASE is prime (3, 5, 7 in all configurations used)",
            "MixedRadixEvaluationDomain over a field without a declared small subgroup is outside the documented domain (its new() panics on an unwrap) and is not generated; fft inputs longer than the domain are not generated",
            "vectors longer than 6 entries are expanded from one tape word by a fixed mixing function (pure function of the tape)",
            "large domains: the linear functional misses a wrong transform with probability < size/|F| (|F| >= 2^64) over the tape-chosen r; the 16 sampled positions and the round trip are exact",
            "filter_polynomial / evaluate_filter_polynomial are outside the statement (not asserted; see NOTES.md, Observations); reindex_by_subdomain is generated only for a subgroup of the domain (sizes dividing, both offsets 1), as its documentation assumes",
        ],
        relations,
    })
}
