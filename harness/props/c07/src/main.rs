//! C07 — not implemented yet.
fn main() {
    eprintln!("C07: check not implemented");
    std::process::exit(2);
}
