//! Parallel peer of the C14 check: reads "<op index> <tape words hex...>" lines, runs the operation inside
//! rayon pools of several sizes, prints "<threads>=<digest> ..." per line.
use c14_ops::{digest, ops, PARALLEL_BUILD};
use std::io::{BufRead, Write};
use vh_core::engine::Tape;

const POOLS: [usize; 14] = [1, 2, 3, 4, 5, 6, 7, 8, 12, 16, 24, 32, 33, 64];

fn main() {
    assert!(PARALLEL_BUILD, "c14p must be built with the parallel feature");
    std::panic::set_hook(Box::new(|_| {}));
    let pools: Vec<(usize, rayon::ThreadPool)> =
        POOLS.iter().map(|n| (*n, rayon::ThreadPoolBuilder::new().num_threads(*n).build().expect("pool"))).collect();
    let ops = ops();
    let stdin = std::io::stdin();
    let mut out = std::io::stdout();
    for line in stdin.lock().lines() {
        let line = match line {
            Ok(l) => l,
            Err(_) => break,
        };
        let mut it = line.split_whitespace();
        let idx: usize = match it.next().and_then(|s| s.parse().ok()) {
            Some(i) => i,
            None => continue,
        };
        let tape: Vec<u64> = it.filter_map(|w| u64::from_str_radix(w, 16).ok()).collect();
        let mut parts = Vec::new();
        for (n, pool) in &pools {
            let run = ops[idx].run;
            let r = std::panic::catch_unwind(std::panic::AssertUnwindSafe(|| {
                pool.install(|| {
                    let mut t = Tape::new(&tape, false);
                    run(&mut t)
                })
            }));
            match r {
                Ok(o) => {
                    let d = digest(&o.bytes);
                    parts.push(format!("{}={:016x}{:016x}:{}", n, d.0, d.1, d.2));
                },
                Err(_) => parts.push(format!("{}=PANIC", n)),
            }
        }
        let _ = writeln!(out, "{}", parts.join(" "));
        let _ = out.flush();
    }
}
