//! C01: prime-field operations agree with num-bigint arithmetic modulo p (differential, coverage-guided).
//! Operands are injected as raw Montgomery limbs so that every limb pattern is reachable by byte mutation.
#![no_main]
use ark_ff::fields::MontConfig;
use ark_ff::{AdditiveGroup, Field, PrimeField};
use libfuzzer_sys::fuzz_target;
use num_bigint::BigUint;
use num_traits::{One, Zero};
use vh_core::gen::{fp_from_big, fp_to_big, F};
use vh_core::modint::*;
use vh_core::zoo::*;

fn val(c: &FieldCtx, d: &[u8], kind: u8) -> BigUint {
    let raw = BigUint::from_bytes_le(d);
    match kind % 4 {
        0 => &raw % &c.p,
        1 => (&c.p - BigUint::one() - (&raw % BigUint::from(300u32)) % &c.p + &c.p) % &c.p,
        // Montgomery limbs given directly: value = m * R^-1
        2 => ((&raw % &c.p) * &c.rinv) % &c.p,
        _ => {
            // limbs of all ones / zeros pattern from the low bits
            let mut v = BigUint::zero();
            for i in 0..c.n {
                if d.get(i).map_or(false, |b| b & 1 == 1) {
                    v |= BigUint::from(u64::MAX) << (64 * i);
                }
            }
            v % &c.p
        },
    }
}

fn check<T: MontConfig<N>, const N: usize>(c: &FieldCtx, got: &F<T, N>, want: &BigUint, what: &str) {
    let (v, canon) = fp_to_big::<T, N>(c, got);
    assert!(canon, "{}: non-canonical result", what);
    assert_eq!(&v, want, "{} in {}", what, c.name);
}

fn run<T: MontConfig<N>, const N: usize>(name: &str, op: u8, kinds: u8, d: &[u8]) {
    let c = cached_ctx(&T::MODULUS.0);
    let c = FieldCtx { name: name.to_string(), ..(*c).clone() };
    let w = 8 * N;
    let av = val(&c, d.get(..w.min(d.len())).unwrap_or(&[]), kinds);
    let bv = val(&c, d.get(w.min(d.len())..(2 * w).min(d.len())).unwrap_or(&[]), kinds >> 2);
    let a = fp_from_big::<T, N>(&c, &av);
    let b = fp_from_big::<T, N>(&c, &bv);
    let p = &c.p;
    match op % 12 {
        0 => check(&c, &(a + b), &addm(&av, &bv, p), "add"),
        1 => check(&c, &(a - b), &subm(&av, &bv, p), "sub"),
        2 => check(&c, &(a * b), &mulm(&av, &bv, p), "mul"),
        3 => check(&c, &a.square(), &mulm(&av, &av, p), "square"),
        4 => check(&c, &a.double(), &addm(&av, &av, p), "double"),
        5 => check(&c, &(-a), &negm(&av, p), "neg"),
        6 => match a.inverse() {
            None => assert!(av.is_zero(), "inverse None for non-zero"),
            Some(i) => check(&c, &i, &invm(&av, p).expect("non-zero"), "inverse"),
        },
        7 => {
            let e: Vec<u64> = d.get(2 * w..).unwrap_or(&[]).chunks(8).take(2 * N).map(|ch| {
                let mut x = [0u8; 8];
                x[..ch.len()].copy_from_slice(ch);
                u64::from_le_bytes(x)
            }).collect();
            check(&c, &a.pow(&e), &powm(&av, &big(&e), p), "pow")
        },
        8 => {
            let want = (&av * &bv + &bv * &av) % p;
            check(&c, &F::<T, N>::sum_of_products(&[a, b], &[b, a]), &want, "sum_of_products<2>");
            let want3 = (&av * &av + &bv * &bv + &av * &bv) % p;
            check(&c, &F::<T, N>::sum_of_products(&[a, b, a], &[a, b, b]), &want3, "sum_of_products<3>");
        },
        9 => {
            let bytes = d.get(2 * w..).unwrap_or(&[]);
            check(&c, &F::<T, N>::from_le_bytes_mod_order(bytes), &(BigUint::from_bytes_le(bytes) % p), "from_le_bytes_mod_order");
            check(&c, &F::<T, N>::from_be_bytes_mod_order(bytes), &(BigUint::from_bytes_be(bytes) % p), "from_be_bytes_mod_order");
        },
        10 => {
            assert_eq!(big(&a.into_bigint().0), av, "into_bigint");
            let s = a.to_string();
            assert_eq!(s, av.to_string(), "display");
            let mut v = vec![a, b, F::<T, N>::ZERO, a];
            ark_ff::batch_inversion(&mut v);
            for (x, xv) in v.iter().zip([&av, &bv, &BigUint::zero(), &av]) {
                let want = if xv.is_zero() { BigUint::zero() } else { invm(xv, p).unwrap() };
                check(&c, x, &want, "batch_inversion");
            }
        },
        _ => {
            if !bv.is_zero() {
                check(&c, &(a / b), &mulm(&av, &invm(&bv, p).unwrap(), p), "div");
            }
            assert_eq!(a == b, av == bv, "eq");
            assert_eq!(a.cmp(&b), av.cmp(&bv), "cmp");
        },
    }
}

fuzz_target!(|data: &[u8]| {
    if data.len() < 3 {
        return;
    }
    let (sel, op, kinds, d) = (data[0], data[1], data[2], &data[3..]);
    match sel % 16 {
        0 => run::<P64Cfg, 1>("P64", op, kinds, d),
        1 => run::<GoldCfg, 1>("Gold", op, kinds, d),
        2 => run::<H1nCfg, 1>("H1n", op, kinds, d),
        3 => run::<T97Cfg, 1>("T97", op, kinds, d),
        4 => run::<M127Cfg, 2>("M127", op, kinds, d),
        5 => run::<Top63Cfg, 2>("Top63", op, kinds, d),
        6 => run::<H2nCfg, 2>("H2n", op, kinds, d),
        7 => run::<P65Cfg, 2>("P65", op, kinds, d),
        8 => run::<P192Cfg, 3>("P192", op, kinds, d),
        9 => run::<Secp256k1Cfg, 4>("Secp256k1", op, kinds, d),
        10 => run::<C25519Cfg, 4>("C25519", op, kinds, d),
        11 => run::<H4nCfg, 4>("H4n", op, kinds, d),
        12 => run::<Bls381FqCfg, 6>("Bls381Fq", op, kinds, d),
        13 => run::<H6nCfg, 6>("H6n", op, kinds, d),
        14 => run::<N13Cfg, 13>("N13", op, kinds, d),
        _ => run::<S7Cfg, 7>("S7", op, kinds, d),
    }
});
