//! C08: univariate polynomial operators agree with a coefficient-vector model and return canonical forms
//! (differential, coverage-guided). Field: F_97 (frequent cancellations) and BLS12-381 Fr.
#![no_main]
use ark_ff::{FftField, Field, One, PrimeField, Zero};
use ark_poly::univariate::{DenseOrSparsePolynomial, DensePolynomial, SparsePolynomial};
use ark_poly::{DenseUVPolynomial, EvaluationDomain, GeneralEvaluationDomain, Polynomial};
use libfuzzer_sys::fuzz_target;
use vh_core::zoo::T97;

type Fr = ark_test_curves::bls12_381::Fr;

struct Rd<'a>(&'a [u8], usize);
impl<'a> Rd<'a> {
    fn u8(&mut self) -> u8 {
        let v = self.0.get(self.1).copied().unwrap_or(0);
        self.1 += 1;
        v
    }
    fn f<F: PrimeField>(&mut self) -> F {
        // small signed values: cancellations are frequent in every field
        let b = self.u8();
        match b {
            0..=200 => F::from((b % 7) as u64),
            201..=230 => -F::from((b % 5) as u64),
            _ => F::from(self.u8() as u64) * F::from(0x1_0000_0001u64) + F::from(b as u64),
        }
    }
}

fn canon<F: Field>(mut v: Vec<F>) -> Vec<F> {
    while v.last().map_or(false, |c| c.is_zero()) {
        v.pop();
    }
    v
}
fn m_add<F: Field>(a: &[F], b: &[F]) -> Vec<F> {
    let n = a.len().max(b.len());
    canon((0..n).map(|i| a.get(i).copied().unwrap_or(F::zero()) + b.get(i).copied().unwrap_or(F::zero())).collect())
}
fn m_scale<F: Field>(a: &[F], k: F) -> Vec<F> {
    canon(a.iter().map(|x| *x * k).collect())
}
fn m_mul<F: Field>(a: &[F], b: &[F]) -> Vec<F> {
    if a.is_empty() || b.is_empty() {
        return vec![];
    }
    let mut out = vec![F::zero(); a.len() + b.len() - 1];
    for (i, x) in a.iter().enumerate() {
        for (j, y) in b.iter().enumerate() {
            out[i + j] += *x * y;
        }
    }
    canon(out)
}
fn dense_ok<F: Field>(p: &DensePolynomial<F>, want: &[F], what: &str) {
    assert!(p.coeffs.last().map_or(true, |c| !c.is_zero()), "{}: non-canonical dense result (trailing zero)", what);
    assert_eq!(p.coeffs.as_slice(), want, "{}: wrong polynomial", what);
    let _ = p.degree();
}
fn sparse_ok<F: Field>(p: &SparsePolynomial<F>, want: &[F], what: &str) {
    let terms: Vec<(usize, F)> = p.iter().cloned().collect();
    for w in terms.windows(2) {
        assert!(w[0].0 < w[1].0, "{}: sparse terms not strictly increasing", what);
    }
    assert!(terms.iter().all(|(_, c)| !c.is_zero()), "{}: sparse zero coefficient", what);
    let mut v = vec![F::zero(); terms.last().map_or(0, |t| t.0 + 1)];
    for (d, c) in terms {
        v[d] = c;
    }
    assert_eq!(canon(v), want, "{}: wrong polynomial", what);
    let _ = p.degree();
}
fn to_sparse<F: Field>(v: &[F]) -> SparsePolynomial<F> {
    SparsePolynomial::from_coefficients_vec(v.iter().enumerate().filter(|(_, c)| !c.is_zero()).map(|(i, c)| (i, *c)).collect())
}

fn run<F: PrimeField + FftField>(r: &mut Rd<'_>) {
    let op = r.u8();
    let la = (r.u8() % 24) as usize;
    let lb = (r.u8() % 24) as usize;
    let mode = r.u8();
    let mut a: Vec<F> = (0..la).map(|_| r.f()).collect();
    let mut b: Vec<F> = (0..lb).map(|_| r.f()).collect();
    if mode & 1 == 1 {
        // correlated: b = -a + low-degree noise
        let k = (mode >> 1) as usize % 4;
        b = a.iter().map(|x| -*x).collect();
        for i in 0..k.min(b.len()) {
            b[i] += r.f::<F>();
        }
    }
    if mode & 0x80 != 0 && !a.is_empty() && !b.is_empty() {
        // same leading coefficient, possibly different degree
        let l = *a.last().unwrap();
        *b.last_mut().unwrap() = l;
    }
    a = canon(a);
    b = canon(b);
    let k: F = r.f();
    let da = DensePolynomial::from_coefficients_vec(a.clone());
    let db = DensePolynomial::from_coefficients_vec(b.clone());
    let sa = to_sparse(&a);
    let sb = to_sparse(&b);
    let neg_b = m_scale(&b, -F::one());
    match op % 14 {
        0 => {
            dense_ok(&(&da + &db), &m_add(&a, &b), "dense+dense");
            let mut x = da.clone();
            x += &db;
            dense_ok(&x, &m_add(&a, &b), "dense+=dense");
        },
        1 => {
            dense_ok(&(&da - &db), &m_add(&a, &neg_b), "dense-dense");
            let mut x = da.clone();
            x -= &db;
            dense_ok(&x, &m_add(&a, &neg_b), "dense-=dense");
        },
        2 => {
            dense_ok(&(&da + &sb), &m_add(&a, &b), "dense+sparse");
            let mut x = da.clone();
            x += &sb;
            dense_ok(&x, &m_add(&a, &b), "dense+=sparse");
        },
        3 => {
            dense_ok(&(&da - &sb), &m_add(&a, &neg_b), "dense-sparse");
            let mut x = da.clone();
            x -= &sb;
            dense_ok(&x, &m_add(&a, &neg_b), "dense-=sparse");
        },
        4 => {
            let mut x = da.clone();
            x += (k, &db);
            dense_ok(&x, &m_add(&a, &m_scale(&b, k)), "dense+=(k,dense)");
            dense_ok(&(&da * k), &m_scale(&a, k), "dense*k");
        },
        5 => {
            sparse_ok(&(&sa + &sb), &m_add(&a, &b), "sparse+sparse");
            let mut x = sa.clone();
            x += &sb;
            sparse_ok(&x, &m_add(&a, &b), "sparse+=sparse");
        },
        6 => {
            let mut x = sa.clone();
            x -= &sb;
            sparse_ok(&x, &m_add(&a, &neg_b), "sparse-=sparse");
            sparse_ok(&(-sa.clone()), &m_scale(&a, -F::one()), "-sparse");
        },
        7 => {
            let mut x = sa.clone();
            x += (k, &sb);
            sparse_ok(&x, &m_add(&a, &m_scale(&b, k)), "sparse+=(k,sparse)");
            sparse_ok(&(&sa * k), &m_scale(&a, k), "sparse*k");
        },
        8 => {
            dense_ok(&da.naive_mul(&db), &m_mul(&a, &b), "naive_mul");
            sparse_ok(&sa.mul(&sb), &m_mul(&a, &b), "sparse.mul");
            if a.len() + b.len() <= (1usize << F::TWO_ADICITY.min(20)) {
                dense_ok(&(&da * &db), &m_mul(&a, &b), "fft mul");
            }
        },
        9 | 10 => {
            if b.is_empty() {
                return;
            }
            let (n, d): (DenseOrSparsePolynomial<'_, F>, DenseOrSparsePolynomial<'_, F>) = match mode % 4 {
                0 => ((&da).into(), (&db).into()),
                1 => ((&sa).into(), (&db).into()),
                2 => ((&da).into(), (&sb).into()),
                _ => ((&sa).into(), (&sb).into()),
            };
            let (q, rem) = n.divide_with_q_and_r(&d).expect("division by a non-zero polynomial");
            assert!(q.coeffs.last().map_or(true, |c| !c.is_zero()), "quotient not canonical");
            assert!(rem.coeffs.last().map_or(true, |c| !c.is_zero()), "remainder not canonical");
            assert!(rem.coeffs.len() < b.len() || rem.coeffs.is_empty(), "deg r >= deg b");
            assert_eq!(m_add(&m_mul(&q.coeffs, &b), &rem.coeffs), a, "a != q*b + r");
            if op % 14 == 10 {
                dense_ok(&(&da / &db), &q.coeffs, "dense/dense");
            }
        },
        11 | 12 => {
            let n = 1usize << (mode % 4);
            if n as u64 > (1u64 << F::TWO_ADICITY.min(20)) {
                return;
            }
            let dom = GeneralEvaluationDomain::<F>::new(n).unwrap();
            let dom = if mode & 0x10 != 0 { dom.get_coset(F::GENERATOR).unwrap() } else { dom };
            let hn = dom.coset_offset_pow_size();
            let mut z = vec![F::zero(); dom.size() + 1];
            z[0] = -hn;
            z[dom.size()] = F::one();
            dense_ok(&da.mul_by_vanishing_poly(dom), &m_mul(&a, &z), "mul_by_vanishing_poly");
            let (q, rem) = da.divide_by_vanishing_poly(dom);
            assert!(q.coeffs.last().map_or(true, |c| !c.is_zero()) && rem.coeffs.last().map_or(true, |c| !c.is_zero()), "vanishing division not canonical");
            assert!(rem.coeffs.len() <= dom.size(), "vanishing remainder too long");
            assert_eq!(m_add(&m_mul(&q.coeffs, &z), &rem.coeffs), a, "a != q*Z + r");
        },
        _ => {
            // conversions and evaluation
            let back: DensePolynomial<F> = sa.clone().into();
            dense_ok(&back, &a, "sparse->dense");
            let sp: SparsePolynomial<F> = da.clone().into();
            sparse_ok(&sp, &a, "dense->sparse");
            let x: F = r.f();
            let mut h = F::zero();
            for c in a.iter().rev() {
                h = h * x + c;
            }
            assert_eq!(da.evaluate(&x), h, "dense evaluate");
            assert_eq!(sa.evaluate(&x), h, "sparse evaluate");
        },
    }
}

fuzz_target!(|data: &[u8]| {
    if data.is_empty() {
        return;
    }
    let mut r = Rd(data, 1);
    if data[0] & 1 == 0 {
        run::<T97>(&mut r)
    } else {
        run::<Fr>(&mut r)
    }
});
