//! C18: container deserialization of arbitrary bytes either fails cleanly or yields a value that round-trips
//! at exactly the advertised size; no panic, no huge allocation (run with -malloc_limit_mb).
#![no_main]
use ark_serialize::{CanonicalDeserialize, CanonicalSerialize, Compress, Validate};
use libfuzzer_sys::fuzz_target;
use std::collections::{BTreeMap, BTreeSet, LinkedList, VecDeque};

#[derive(CanonicalSerialize, CanonicalDeserialize, PartialEq, Eq, Debug, Clone)]
struct Named {
    a: u32,
    b: Vec<u16>,
    c: Option<(bool, u64)>,
    d: String,
}

#[derive(CanonicalSerialize, CanonicalDeserialize, PartialEq, Eq, Debug, Clone)]
struct Tup(u8, (u16, (u32, Vec<u8>)), [u16; 3]);

#[derive(CanonicalSerialize, CanonicalDeserialize, PartialEq, Eq, Debug, Clone)]
struct WithPoints {
    n: u8,
    pts: Vec<ark_test_curves::bls12_381::G1Affine>,
    f: ark_test_curves::bls12_381::Fr,
}

fn one<T: CanonicalSerialize + CanonicalDeserialize + PartialEq + core::fmt::Debug>(mode: u8, payload: &[u8]) {
    let compress = if mode & 1 == 0 { Compress::Yes } else { Compress::No };
    let validate = if mode & 2 == 0 { Validate::Yes } else { Validate::No };
    let mut rd = payload;
    if let Ok(v) = T::deserialize_with_mode(&mut rd, compress, validate) {
        let consumed = payload.len() - rd.len();
        let mut out = Vec::new();
        v.serialize_with_mode(&mut out, compress).expect("serialize of a deserialized value");
        assert_eq!(out.len(), v.serialized_size(compress), "serialized_size != bytes written");
        let back = T::deserialize_with_mode(&out[..], compress, validate).expect("re-deserialize");
        assert_eq!(back, v, "round trip changed the value");
        assert!(consumed <= payload.len());
    }
}

fuzz_target!(|data: &[u8]| {
    if data.len() < 2 {
        return;
    }
    let (sel, mode, p) = (data[0], data[1], &data[2..]);
    match sel % 22 {
        0 => one::<Vec<u8>>(mode, p),
        1 => one::<Vec<u64>>(mode, p),
        2 => one::<Vec<Vec<u16>>>(mode, p),
        3 => one::<String>(mode, p),
        4 => one::<BTreeMap<u32, Vec<u8>>>(mode, p),
        5 => one::<BTreeSet<u64>>(mode, p),
        6 => one::<Option<Vec<bool>>>(mode, p),
        7 => one::<(u8, Vec<u32>, bool)>(mode, p),
        8 => one::<VecDeque<u32>>(mode, p),
        9 => one::<LinkedList<u16>>(mode, p),
        10 => one::<[u32; 4]>(mode, p),
        11 => one::<num_bigint::BigUint>(mode, p),
        12 => one::<Vec<ark_test_curves::bls12_381::G1Affine>>(mode, p),
        13 => one::<Named>(mode, p),
        14 => one::<Tup>(mode, p),
        15 => one::<WithPoints>(mode, p),
        16 => one::<Vec<Option<String>>>(mode, p),
        17 => one::<BTreeMap<String, BTreeSet<u8>>>(mode, p),
        18 => one::<VecDeque<Vec<u8>>>(mode, p),
        19 => one::<bool>(mode, p),
        20 => one::<ark_ff::BigInt<4>>(mode, p),
        _ => one::<(Vec<i32>, i64, Option<bool>)>(mode, p),
    }
});
