//! C09 (uniqueness of field encodings): any byte string that deserializes successfully must re-serialize to
//! exactly the same bytes; the decoded element must be canonical.
#![no_main]
use ark_ec::models::short_weierstrass::SWFlags;
use ark_ec::models::twisted_edwards::TEFlags;
use ark_ff::{BigInteger, PrimeField};
use ark_serialize::{
    CanonicalDeserialize, CanonicalDeserializeWithFlags, CanonicalSerialize, CanonicalSerializeWithFlags, EmptyFlags, Flags,
};
use libfuzzer_sys::fuzz_target;

fn one<F: PrimeField, Fl: Flags>(payload: &[u8]) {
    let zero = F::zero();
    let size = zero.serialized_size_with_flags::<Fl>();
    if payload.len() < size {
        // truncated input must be an error, never a panic
        assert!(F::deserialize_with_flags::<_, Fl>(payload).is_err(), "truncated input accepted");
        return;
    }
    let input = &payload[..size];
    if let Ok((v, fl)) = F::deserialize_with_flags::<_, Fl>(input) {
        let mut out = Vec::new();
        v.serialize_with_flags(&mut out, fl).expect("serialize_with_flags");
        assert_eq!(out.as_slice(), input, "field encoding is not unique: accepted bytes re-serialize differently");
        assert!(v.into_bigint() < F::MODULUS, "non-canonical element");
        let _ = v.into_bigint().to_bytes_le();
    }
}

fn plain<F: PrimeField>(payload: &[u8]) {
    let size = F::zero().compressed_size();
    if payload.len() < size {
        assert!(F::deserialize_compressed(payload).is_err());
        return;
    }
    let input = &payload[..size];
    if let Ok(v) = F::deserialize_compressed(input) {
        let mut out = Vec::new();
        v.serialize_compressed(&mut out).unwrap();
        assert_eq!(out.as_slice(), input, "plain field encoding not unique");
    }
    if let Ok(v) = F::deserialize_uncompressed_unchecked(input) {
        let mut out = Vec::new();
        v.serialize_uncompressed(&mut out).unwrap();
        assert_eq!(out.as_slice(), input, "plain field encoding not unique (unchecked)");
    }
}

fn field<F: PrimeField>(kind: u8, payload: &[u8]) {
    match kind % 4 {
        0 => one::<F, EmptyFlags>(payload),
        1 => one::<F, SWFlags>(payload),
        2 => one::<F, TEFlags>(payload),
        _ => plain::<F>(payload),
    }
}

fuzz_target!(|data: &[u8]| {
    if data.len() < 2 {
        return;
    }
    let (sel, kind, payload) = (data[0], data[1], &data[2..]);
    match sel % 8 {
        0 => field::<ark_bls12_381::Fq>(kind, payload),
        1 => field::<ark_bls12_381::Fr>(kind, payload),
        2 => field::<ark_secp256k1::Fq>(kind, payload),
        3 => field::<ark_secp256k1::Fr>(kind, payload),
        4 => field::<ark_bn254::Fr>(kind, payload),
        5 => field::<ark_mnt4_298::Fq>(kind, payload),
        6 => field::<ark_ed_on_bls12_381::Fr>(kind, payload),
        _ => field::<ark_bn254::Fq>(kind, payload),
    }
});
