//! C15: BigInt<N> operations agree with arbitrary-precision integers (differential against num-bigint).
#![no_main]
use ark_ff::biginteger::arithmetic::{find_naf, find_relaxed_naf};
use ark_ff::{BigInt, BigInteger};
use libfuzzer_sys::fuzz_target;
use num_bigint::{BigInt as SBig, BigUint};
use num_traits::{One, Zero};

fn big(l: &[u64]) -> BigUint {
    let mut b = Vec::new();
    for x in l {
        b.extend_from_slice(&x.to_le_bytes());
    }
    BigUint::from_bytes_le(&b)
}

fn limbs<const N: usize>(d: &[u8]) -> [u64; N] {
    let mut out = [0u64; N];
    for i in 0..N {
        let mut w = [0u8; 8];
        for j in 0..8 {
            if let Some(b) = d.get(i * 8 + j) {
                // bias towards all-ones / zero limbs: 0xff and 0x00 are what the mutator produces easily
                w[j] = *b;
            }
        }
        out[i] = u64::from_le_bytes(w);
    }
    out
}

fn digits_value(d: &[i64]) -> SBig {
    let mut v = SBig::zero();
    for (i, x) in d.iter().enumerate() {
        v += SBig::from(*x) << i;
    }
    v
}

fn run<const N: usize>(op: u8, sh: u32, d: &[u8]) {
    let m = BigUint::one() << (64 * N);
    let la = limbs::<N>(d);
    let lb = limbs::<N>(d.get(8 * N..).unwrap_or(&[]));
    let (a, b) = (BigInt::<N>::new(la), BigInt::<N>::new(lb));
    let (av, bv) = (big(&la), big(&lb));
    match op % 16 {
        0 => {
            let mut x = a;
            let c = x.add_with_carry(&b);
            let s = &av + &bv;
            assert_eq!(big(&x.0), &s % &m, "add_with_carry value");
            assert_eq!(c, s >= m, "add_with_carry flag");
        },
        1 => {
            let mut x = a;
            let c = x.sub_with_borrow(&b);
            let s = (&m + &av - &bv) % &m;
            assert_eq!(big(&x.0), s, "sub_with_borrow value");
            assert_eq!(c, av < bv, "sub_with_borrow flag");
        },
        2 => {
            let mut x = a;
            let c = x.mul2();
            assert_eq!(big(&x.0), (&av << 1u32) % &m, "mul2");
            assert_eq!(c, (&av << 1u32) >= m, "mul2 carry");
            let mut y = a;
            y.div2();
            assert_eq!(big(&y.0), &av >> 1u32, "div2");
        },
        3 => {
            let s = sh % (64 * N as u32 + 70);
            let mut x = a;
            x.muln(s);
            assert_eq!(big(&x.0), (&av << s) % &m, "muln({})", s);
            let mut y = a;
            y.divn(s);
            assert_eq!(big(&y.0), &av >> s, "divn({})", s);
        },
        4 => {
            let s = sh % (64 * N as u32 + 70);
            assert_eq!(big(&(a << s).0), (&av << s) % &m, "shl {}", s);
            assert_eq!(big(&(a >> s).0), &av >> s, "shr {}", s);
        },
        5 => {
            let (lo, hi) = a.mul(&b);
            let p = &av * &bv;
            assert_eq!(big(&lo.0), &p % &m, "mul lo");
            assert_eq!(big(&hi.0), &p >> (64 * N), "mul hi");
            assert_eq!(big(&a.mul_low(&b).0), &p % &m, "mul_low");
            assert_eq!(big(&a.mul_high(&b).0), &p >> (64 * N), "mul_high");
        },
        6 => {
            assert_eq!(a.cmp(&b), av.cmp(&bv), "cmp");
            assert_eq!(a == b, av == bv, "eq");
            assert_eq!(a.num_bits() as u64, av.bits(), "num_bits");
            assert_eq!(a.is_zero(), av.is_zero());
            assert_eq!(a.is_odd(), av.bit(0));
            let i = (sh as usize) % (64 * N + 8);
            assert_eq!(a.get_bit(i), av.bit(i as u64), "get_bit({})", i);
        },
        7 => {
            assert_eq!(BigUint::from_bytes_le(&a.to_bytes_le()), av, "to_bytes_le");
            assert_eq!(BigUint::from_bytes_be(&a.to_bytes_be()), av, "to_bytes_be");
            let bits_le = a.to_bits_le();
            let bits_be = a.to_bits_be();
            assert_eq!(bits_le.len(), 64 * N);
            assert!(bits_le.iter().rev().eq(bits_be.iter()));
            assert_eq!(BigInt::<N>::from_bits_le(&bits_le), a, "from_bits_le");
            assert_eq!(BigInt::<N>::from_bits_be(&bits_be), a, "from_bits_be");
            for (i, bit) in bits_le.iter().enumerate() {
                assert_eq!(*bit, av.bit(i as u64));
            }
        },
        8 => {
            let s = a.to_string();
            assert_eq!(s, av.to_string(), "display");
            let back: BigInt<N> = s.parse().expect("from_str of own display");
            assert_eq!(back, a);
            let bu: BigUint = a.into();
            assert_eq!(bu, av);
            assert_eq!(BigInt::<N>::try_from(av.clone()).ok(), Some(a));
            let wide = &av + &m;
            assert!(BigInt::<N>::try_from(wide).is_err(), "too wide BigUint accepted");
        },
        9 => {
            let w = 2 + (sh as usize % 62);
            let d = a.find_wnaf(w).expect("valid window");
            assert_eq!(digits_value(&d), SBig::from(av.clone()), "wnaf value w={}", w);
            let bound = 1i64 << (w - 1);
            let mut last: Option<usize> = None;
            for (i, x) in d.iter().enumerate() {
                if *x != 0 {
                    assert!(x % 2 != 0 && *x < bound && *x > -bound, "wnaf digit {} w={}", x, w);
                    if let Some(l) = last {
                        assert!(i - l >= w, "wnaf digits too close w={}", w);
                    }
                    last = Some(i);
                }
            }
            assert!(a.find_wnaf(1).is_none() && a.find_wnaf(64).is_none() && a.find_wnaf(0).is_none());
        },
        10 => {
            let naf = find_naf(&la);
            let v: Vec<i64> = naf.iter().map(|x| *x as i64).collect();
            assert_eq!(digits_value(&v), SBig::from(av.clone()), "naf value");
            for w in naf.windows(2) {
                assert!(w[0] == 0 || w[1] == 0, "naf adjacency");
            }
            assert!(naf.iter().all(|x| (-1..=1).contains(x)));
            let rel = find_relaxed_naf(&la);
            let v: Vec<i64> = rel.iter().map(|x| *x as i64).collect();
            assert_eq!(digits_value(&v), SBig::from(av.clone()), "relaxed naf value");
            assert!(rel.len() <= naf.len(), "relaxed naf longer than naf");
        },
        11 => {
            assert_eq!(big(&(a & b).0), &av & &bv, "and");
            assert_eq!(big(&(a | b).0), &av | &bv, "or");
            assert_eq!(big(&(a ^ b).0), &av ^ &bv, "xor");
            assert_eq!(big(&(!a).0), &m - 1u32 - &av, "not");
        },
        12 => {
            let be: Vec<bool> = ark_ff::BitIteratorBE::new(la).collect();
            let le: Vec<bool> = ark_ff::BitIteratorLE::new(la).collect();
            assert_eq!(be.len(), 64 * N);
            assert!(be.iter().rev().eq(le.iter()));
            let bewz: Vec<bool> = ark_ff::BitIteratorBE::without_leading_zeros(la).collect();
            assert_eq!(bewz.len() as u64, av.bits());
            let lewz: Vec<bool> = ark_ff::BitIteratorLE::without_trailing_zeros(la).collect();
            assert_eq!(lewz.len() as u64, av.bits());
            for (i, bit) in le.iter().enumerate() {
                assert_eq!(*bit, av.bit(i as u64));
            }
        },
        13 => {
            // const twins
            assert_eq!(a.const_is_odd(), av.bit(0));
            assert_eq!(a.const_is_even(), !av.bit(0));
            assert_eq!(a.mod_4() as u32, (&av % 4u32).to_u32_digits().first().copied().unwrap_or(0));
            // doc(hidden) helper only ever applied to moduli, whose top limb is non-zero by construction of N
            if la[N - 1] != 0 {
                assert_eq!(a.const_num_bits() as u64, av.bits());
            }
            assert_eq!(big(&a.divide_by_2_round_down().0), &av >> 1u32);
            // two_adic_* are defined for odd values > 1 (moduli): self = 2^s * t + 1
            if av.bit(0) && av > BigUint::one() {
                let am1 = &av - 1u32;
                let tz = am1.trailing_zeros().unwrap();
                assert_eq!(a.two_adic_valuation() as u64, tz, "two_adic_valuation");
                assert_eq!(big(&a.two_adic_coefficient().0), &am1 >> tz, "two_adic_coefficient");
            }
        },
        14 => {
            // the private const twins are reached through the public const wrappers
            if av.bit(0) && av > BigUint::one() {
                let r = a.montgomery_r();
                assert!(big(&r.0) < av);
            }
        },
        _ => {
            // montgomery constants for odd moduli
            if av.bit(0) && av > BigUint::one() {
                let r = a.montgomery_r();
                assert_eq!(big(&r.0), &m % &av, "montgomery_r");
                let r2 = a.montgomery_r2();
                assert_eq!(big(&r2.0), (&m * &m) % &av, "montgomery_r2");
            }
        },
    }
}

fuzz_target!(|data: &[u8]| {
    if data.len() < 6 {
        return;
    }
    let n = data[0];
    let op = data[1];
    let sh = u32::from_le_bytes([data[2], data[3], data[4], data[5]]);
    let d = &data[6..];
    match n % 6 {
        0 => run::<1>(op, sh, d),
        1 => run::<2>(op, sh, d),
        2 => run::<3>(op, sh, d),
        3 => run::<4>(op, sh, d),
        4 => run::<6>(op, sh, d),
        _ => run::<13>(op, sh, d),
    }
});
