//! C17: dense and sparse multilinear extensions agree with the hypercube-sum definition and with each other
//! (differential, coverage-guided). Field F_97 (cancellations) and BLS12-381 Fr.
#![no_main]
use ark_ff::{Field, One, PrimeField, Zero};
use ark_poly::{DenseMultilinearExtension, MultilinearExtension, Polynomial, SparseMultilinearExtension};
use libfuzzer_sys::fuzz_target;
use vh_core::zoo::T97;

type Fr = ark_test_curves::bls12_381::Fr;

struct Rd<'a>(&'a [u8], usize);
impl<'a> Rd<'a> {
    fn u8(&mut self) -> u8 {
        let v = self.0.get(self.1).copied().unwrap_or(0);
        self.1 += 1;
        v
    }
    fn f<F: PrimeField>(&mut self) -> F {
        let b = self.u8();
        match b {
            0..=120 => F::zero(),
            121..=200 => F::from((b % 5) as u64),
            201..=230 => -F::from((b % 3) as u64 + 1),
            _ => F::from(self.u8() as u64) * F::from(0x1_0000_0001u64) + F::from(b as u64),
        }
    }
}

/// f(x) = sum_b T[b] prod_i (b_i x_i + (1-b_i)(1-x_i)), index bit i <-> variable i
fn eval_def<F: Field>(t: &[F], x: &[F]) -> F {
    let mut s = F::zero();
    for (b, v) in t.iter().enumerate() {
        if v.is_zero() {
            continue;
        }
        let mut w = *v;
        for (i, xi) in x.iter().enumerate() {
            w *= if (b >> i) & 1 == 1 { *xi } else { F::one() - xi };
        }
        s += w;
    }
    s
}

fn table_of<F: Field, M: MultilinearExtension<F>>(m: &M, nv: usize) -> Vec<F> {
    let t = m.to_evaluations();
    if m.num_vars() == 0 && t.iter().all(|x| x.is_zero()) && nv != 0 {
        // the Zero representation stands for the zero table of any arity
        return vec![F::zero(); 1 << nv];
    }
    assert_eq!(m.num_vars(), nv, "wrong arity");
    assert_eq!(t.len(), 1 << nv, "table length");
    t
}

fn run<F: PrimeField>(r: &mut Rd<'_>) {
    let op = r.u8();
    let nv = (r.u8() % 6) as usize;
    let n = 1usize << nv;
    let a: Vec<F> = (0..n).map(|_| r.f()).collect();
    let b: Vec<F> = (0..n).map(|_| r.f()).collect();
    let x: Vec<F> = (0..nv).map(|_| match r.u8() % 4 { 0 => F::zero(), 1 => F::one(), _ => r.f::<F>() + F::from(2u64) }).collect();
    let da = DenseMultilinearExtension::from_evaluations_vec(nv, a.clone());
    let db = DenseMultilinearExtension::from_evaluations_vec(nv, b.clone());
    let sp = |t: &[F]| -> SparseMultilinearExtension<F> {
        let ev: Vec<(usize, F)> = t.iter().enumerate().filter(|(_, v)| !v.is_zero()).map(|(i, v)| (i, *v)).collect();
        SparseMultilinearExtension::from_evaluations(nv, &ev)
    };
    let (sa, sb) = (sp(&a), sp(&b));
    match op % 8 {
        0 => {
            let want = eval_def(&a, &x);
            assert_eq!(da.evaluate(&x), want, "dense evaluate");
            assert_eq!(sa.evaluate(&x), want, "sparse evaluate");
            assert_eq!(table_of(&da, nv), a, "dense table");
            assert_eq!(table_of(&sa, nv), a, "sparse table");
        },
        1 => {
            let k = if nv == 0 { 0 } else { (r.u8() as usize) % (nv + 1) };
            let want: Vec<F> = (0..1usize << (nv - k)).map(|rest| {
                let mut pt = x[..k].to_vec();
                for i in 0..nv - k {
                    pt.push(if (rest >> i) & 1 == 1 { F::one() } else { F::zero() });
                }
                eval_def(&a, &pt)
            }).collect();
            assert_eq!(table_of(&da.fix_variables(&x[..k]), nv - k), want, "dense fix_variables");
            assert_eq!(table_of(&sa.fix_variables(&x[..k]), nv - k), want, "sparse fix_variables");
        },
        2 => {
            if nv < 2 {
                return;
            }
            // disjoint windows a0..a0+k and b0..b0+k
            let k = 1 + (r.u8() as usize) % (nv / 2);
            let a0 = (r.u8() as usize) % (nv - 2 * k + 1);
            let b0 = a0 + k + (r.u8() as usize) % (nv - 2 * k - a0 + 1);
            let swap = |i: usize| -> usize {
                let mut j = i;
                for t in 0..k {
                    let (ba, bb) = ((i >> (a0 + t)) & 1, (i >> (b0 + t)) & 1);
                    j = (j & !(1 << (a0 + t)) & !(1 << (b0 + t))) | (bb << (a0 + t)) | (ba << (b0 + t));
                }
                j
            };
            let want: Vec<F> = (0..n).map(|i| a[swap(i)]).collect();
            assert_eq!(table_of(&da.relabel(a0, b0, k), nv), want, "dense relabel");
            assert_eq!(table_of(&sa.relabel(a0, b0, k), nv), want, "sparse relabel");
            assert_eq!(table_of(&sa.relabel(b0, a0, k), nv), want, "sparse relabel (swapped args)");
        },
        3 => {
            let want: Vec<F> = a.iter().zip(&b).map(|(u, v)| *u + v).collect();
            assert_eq!(table_of(&(&da + &db), nv), want, "dense +");
            assert_eq!(table_of(&(&sa + &sb), nv), want, "sparse +");
            let mut d2 = da.clone();
            d2 += &db;
            assert_eq!(table_of(&d2, nv), want, "dense +=");
            let mut s2 = sa.clone();
            s2 += &sb;
            assert_eq!(table_of(&s2, nv), want, "sparse +=");
        },
        4 => {
            let want: Vec<F> = a.iter().zip(&b).map(|(u, v)| *u - v).collect();
            assert_eq!(table_of(&(&da - &db), nv), want, "dense -");
            assert_eq!(table_of(&(&sa - &sb), nv), want, "sparse -");
            let mut d2 = da.clone();
            d2 -= &db;
            assert_eq!(table_of(&d2, nv), want, "dense -=");
            let mut s2 = sa.clone();
            s2 -= &sb;
            assert_eq!(table_of(&s2, nv), want, "sparse -=");
        },
        5 => {
            let k: F = r.f();
            let want: Vec<F> = a.iter().zip(&b).map(|(u, v)| *u + k * v).collect();
            let mut d2 = da.clone();
            d2 += (k, &db);
            assert_eq!(table_of(&d2, nv), want, "dense +=(k,.)");
            let mut s2 = sa.clone();
            s2 += (k, &sb);
            assert_eq!(table_of(&s2, nv), want, "sparse +=(k,.)");
            let neg: Vec<F> = a.iter().map(|u| -*u).collect();
            assert_eq!(table_of(&(-da.clone()), nv), neg, "dense neg");
            assert_eq!(table_of(&(-sa.clone()), nv), neg, "sparse neg");
        },
        6 => {
            // zero operands of arity 0 on either side
            let z = DenseMultilinearExtension::<F>::zero();
            assert_eq!(table_of(&(&da + &z), nv), a, "dense + Zero");
            assert_eq!(table_of(&(&z + &da), nv), a, "Zero + dense");
            let zs = SparseMultilinearExtension::<F>::zero();
            assert_eq!(table_of(&(&sa + &zs), nv), a, "sparse + Zero");
            assert_eq!(table_of(&(&zs + &sa), nv), a, "Zero + sparse");
        },
        _ => {
            for i in 0..n {
                assert_eq!(da[i], a[i], "dense Index");
                assert_eq!(sa[i], a[i], "sparse Index");
            }
        },
    }
}

fuzz_target!(|data: &[u8]| {
    if data.is_empty() {
        return;
    }
    let mut r = Rd(data, 1);
    if data[0] & 1 == 0 {
        run::<T97>(&mut r)
    } else {
        run::<Fr>(&mut r)
    }
});
