//! C10: checked deserialization of curve points only yields points of the curve in the prime-order subgroup,
//! never panics and never reads past the advertised size.
//! Structure-aware decoding: the fuzz bytes are (curve, mode, scalar k, xor-mask); the candidate encoding is
//! serialize(k*G) ^ mask, so a zero mask is a valid encoding and small masks are near-valid ones; a second
//! class feeds the raw bytes directly.
#![no_main]
use ark_ec::models::short_weierstrass::{Affine as SwAffine, SWCurveConfig};
use ark_ec::models::twisted_edwards::{Affine as TeAffine, TECurveConfig};
use ark_ec::{AffineRepr, CurveGroup, PrimeGroup};
use ark_ff::{AdditiveGroup, BitIteratorBE, Field, One, PrimeField, Zero};
use ark_serialize::{CanonicalDeserialize, CanonicalSerialize, Compress, Validate};
use libfuzzer_sys::fuzz_target;

struct CountingReader<'a> {
    data: &'a [u8],
    pos: usize,
}
impl<'a> ark_serialize::Read for CountingReader<'a> {
    fn read(&mut self, buf: &mut [u8]) -> std::io::Result<usize> {
        let n = buf.len().min(self.data.len() - self.pos);
        buf[..n].copy_from_slice(&self.data[self.pos..self.pos + n]);
        self.pos += n;
        Ok(n)
    }
}

fn modes(m: u8) -> (Compress, Validate) {
    (if m & 1 == 0 { Compress::Yes } else { Compress::No }, if m & 2 == 0 { Validate::Yes } else { Validate::No })
}

/// r * P by plain double-and-add over the group operations
fn times_r<G: CurveGroup>(p: G) -> G {
    let mut acc = G::zero();
    for b in BitIteratorBE::without_leading_zeros(<G::ScalarField as PrimeField>::MODULUS) {
        acc.double_in_place();
        if b {
            acc += p;
        }
    }
    acc
}

fn candidate<A: AffineRepr + CanonicalSerialize>(mode: u8, payload: &[u8]) -> Vec<u8> {
    let (compress, _) = modes(mode);
    if mode & 4 == 0 {
        // near-valid: serialize(k*G) ^ mask
        let mut k = [0u8; 8];
        let n = payload.len().min(8);
        k[..n].copy_from_slice(&payload[..n]);
        let k = u64::from_le_bytes(k);
        let p = (A::Group::generator() * A::ScalarField::from(k)).into_affine();
        let mut bytes = Vec::new();
        p.serialize_with_mode(&mut bytes, compress).unwrap();
        for (b, m) in bytes.iter_mut().zip(payload.iter().skip(8)) {
            *b ^= *m;
        }
        // optional truncation
        if mode & 8 != 0 && !bytes.is_empty() {
            let cut = payload.last().copied().unwrap_or(0) as usize % bytes.len();
            bytes.truncate(cut);
        }
        bytes
    } else {
        payload.to_vec()
    }
}

/// class "isomorphic image": (t^2 x, t^3 y) of a subgroup point lies on y^2 = x^3 + t^4 a x + t^6 b - a different
/// curve on which the group law (and hence any subgroup test that assumes the curve) behaves identically.
fn iso_image<P: SWCurveConfig>(mode: u8, payload: &[u8]) -> Option<Vec<u8>> {
    if mode & 16 == 0 || payload.len() < 9 {
        return None;
    }
    let mut k = [0u8; 8];
    k.copy_from_slice(&payload[..8]);
    let k = u64::from_le_bytes(k) | 1;
    let t = P::BaseField::from(payload[8] as u64 + 2);
    let p = (SwAffine::<P>::generator() * P::ScalarField::from(k)).into_affine();
    if p.infinity {
        return None;
    }
    let t2 = t.square();
    let q = SwAffine::<P>::new_unchecked(p.x * t2, p.y * t2 * t);
    let (compress, _) = modes(mode);
    let mut bytes = Vec::new();
    q.serialize_with_mode(&mut bytes, compress).ok()?;
    Some(bytes)
}

fn sw<P: SWCurveConfig>(mode: u8, payload: &[u8]) {
    let bytes = iso_image::<P>(mode, payload).unwrap_or_else(|| candidate::<SwAffine<P>>(mode, payload));
    let (compress, validate) = modes(mode);
    let mut rd = CountingReader { data: &bytes, pos: 0 };
    let r = SwAffine::<P>::deserialize_with_mode(&mut rd, compress, validate);
    let adv = SwAffine::<P>::identity().serialized_size(compress);
    assert!(rd.pos <= adv, "read {} bytes, advertised size {}", rd.pos, adv);
    if let Ok(p) = r {
        if validate == Validate::Yes {
            if !p.infinity {
                let lhs = p.y.square();
                let rhs = p.x.square() * p.x + P::COEFF_A * p.x + P::COEFF_B;
                assert!(lhs == rhs, "checked deserialization returned an off-curve point");
            }
            assert!(times_r(p.into_group()).is_zero(), "checked deserialization returned a point outside the prime-order subgroup");
        }
        // whatever was accepted must serialize again without panicking
        let mut out = Vec::new();
        let _ = p.serialize_with_mode(&mut out, compress);
    }
}

fn te<P: TECurveConfig>(mode: u8, payload: &[u8]) {
    let bytes = candidate::<TeAffine<P>>(mode, payload);
    let (compress, validate) = modes(mode);
    let mut rd = CountingReader { data: &bytes, pos: 0 };
    let r = TeAffine::<P>::deserialize_with_mode(&mut rd, compress, validate);
    let adv = TeAffine::<P>::zero().serialized_size(compress);
    assert!(rd.pos <= adv, "read {} bytes, advertised size {}", rd.pos, adv);
    if let Ok(p) = r {
        if validate == Validate::Yes {
            let x2 = p.x.square();
            let y2 = p.y.square();
            assert!(P::COEFF_A * x2 + y2 == P::BaseField::one() + P::COEFF_D * x2 * y2, "off-curve TE point accepted");
            assert!(times_r(p.into_group()).is_zero(), "TE point outside the prime-order subgroup accepted");
        }
        let mut out = Vec::new();
        let _ = p.serialize_with_mode(&mut out, compress);
    }
}

fuzz_target!(|data: &[u8]| {
    if data.len() < 2 {
        return;
    }
    let (sel, mode, payload) = (data[0], data[1], &data[2..]);
    match sel % 9 {
        0 => sw::<ark_bls12_381::g1::Config>(mode, payload),
        1 => sw::<ark_bls12_381::g2::Config>(mode, payload),
        2 => sw::<ark_test_curves::bls12_381::g1::Config>(mode, payload),
        3 => sw::<ark_test_curves::bls12_381::g2::Config>(mode, payload),
        4 => sw::<ark_bn254::g1::Config>(mode, payload),
        5 => sw::<ark_bn254::g2::Config>(mode, payload),
        6 => te::<ark_ed_on_bls12_381::EdwardsConfig>(mode, payload),
        7 => sw::<ark_secp256k1::Config>(mode, payload),
        _ => sw::<ark_mnt4_298::g2::Config>(mode, payload),
    }
});
